#!/bin/sh
# usage: rebuild_ext.sh <worktree>   -- recompiles yarl/_quoting_c.pyx into the worktree's .so
set -e
cd "$1/yarl"
/venv/bin/cython -3 -X linetrace=False _quoting_c.pyx -o _quoting_c.c
gcc -O1 -shared -fPIC -I/root/.pyenv/versions/3.12.1/include/python3.12 _quoting_c.c -o _quoting_c.cpython-312-x86_64-linux-gnu.so
echo rebuilt
