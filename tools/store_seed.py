#!/usr/bin/env python3
"""store_seed.py <Cxx> <A|B> <dest-suffix> <confirm-log>: store a confirmed sub-agent change as /verif/seeded/<Cxx>-<suffix>/"""
import json, re, shutil, sys, os
from pathlib import Path
pid, x, suf, log = sys.argv[1:5]
root = Path(os.environ.get("SEEDROOT", "/tmp/seed-out")) / pid / x
txt = Path(log).read_text()
m = re.search(r"RESULT \S+ \S+ clean_exit=(\d+) mutant_exit=(\d+)", txt)
assert m, "no RESULT line"
clean, mut = int(m.group(1)), int(m.group(2))
tests = re.findall(r"== tests \((C|py)\)\n(.*)", txt)
tests = {k: re.sub(r" in [0-9.]+s.*", "", v).strip("= ") for k, v in tests}
assert clean == 0 and mut == 1, (clean, mut)
assert all(re.search(r"\d+ passed", tests.get(k, "")) and not re.search(r"\d+ (failed|error)", tests.get(k, "")) for k in ("C", "py")), tests
dst = Path("/verif/seeded") / f"{pid}-{suf}"
dst.mkdir(parents=True, exist_ok=True)
for f in ("patch.diff", "demo.py", "notes.md"):
    shutil.copy(root / f, dst / f)
meta = {"id": f"{pid}-{suf}", "property": pid,
        "origin": "independent sub-agent given only the property text and a scratch worktree of /repo HEAD (round " + os.environ.get("ROUND", "7") + ")",
        "what_it_needs_to_manifest": (root / "notes.md").read_text(),
        "confirmed_by_me": {"patch_applies_to_repo_head": True, "suite_c_backend": tests["C"], "suite_pure_python": tests["py"],
                            "demo_on_clean_tree": "PASS (exit 0)", "demo_with_change": "FAIL (exit 1)",
                            "how": "tools/confirm_seed.sh in a scratch git worktree of /repo HEAD (removed afterwards)"}}
(dst / "meta.json").write_text(json.dumps(meta, indent=1))
print("stored", dst)
