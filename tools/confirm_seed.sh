#!/bin/bash
# usage: confirm_seed.sh <Cxx> <A|B>   -- confirms a sub-agent's seeded change in a scratch worktree of /repo HEAD:
#   patch applies, full test suite passes (both back ends), demo FAILs with it and PASSes without.
set -u
TOOLS=$(cd "$(dirname "$0")" && pwd)
ID=$1; X=$2; SRC=${SEEDROOT:-/tmp/seed-out}/$ID/$X; WT=/tmp/wt-confirm-$ID$X
[ -f $SRC/patch.diff ] || { echo "no patch"; exit 2; }
git -C /repo worktree add -q --detach $WT HEAD || exit 2
trap 'git -C /repo worktree remove --force $WT' EXIT
cp /repo/yarl/_quoting_c.cpython-312-x86_64-linux-gnu.so $WT/yarl/ 2>/dev/null
$TOOLS/rebuild_ext.sh $WT >/dev/null || exit 2
cp $SRC/demo.py $WT/demo_seed.py
cd $WT
echo "== clean demo"; /venv/bin/python demo_seed.py >/tmp/confirm-$ID$X-clean.log 2>&1; C=$?; tail -2 /tmp/confirm-$ID$X-clean.log
git apply $SRC/patch.diff || { echo "PATCH DOES NOT APPLY"; exit 3; }
if git diff --name-only | grep -q pyx; then $TOOLS/rebuild_ext.sh $WT >/dev/null || { echo "ext build failed"; exit 3; }; fi
echo "== tests (C)"; /venv/bin/python -m pytest -q -p no:cacheprovider -n 8 --no-cov 2>&1 | tail -1
echo "== tests (py)"; YARL_NO_EXTENSIONS=1 /venv/bin/python -m pytest -q -p no:cacheprovider -n 8 --no-cov 2>&1 | tail -1
echo "== mutant demo"; /venv/bin/python demo_seed.py >/tmp/confirm-$ID$X-mut.log 2>&1; M=$?; tail -3 /tmp/confirm-$ID$X-mut.log
echo "RESULT $ID $X clean_exit=$C mutant_exit=$M"
