#!/usr/bin/env python3
"""record_matrix.py <round title> <log> [<log> ...] [--notes notes.json]: write detected_by into seeded/<id>/meta.json from
tools/matrix.sh logs (later logs win) and append a section to seeded/MATRIX.md."""
import json, re, sys
from pathlib import Path
args = sys.argv[1:]
notes = {}
if "--notes" in args:
    i = args.index("--notes")
    notes = json.loads(Path(args[i + 1]).read_text())
    del args[i:i + 2]
title, logs = args[0], args[1:]
res = {}
first = {}
for n, lg in enumerate(logs):
    for ln in Path(lg).read_text().splitlines():
        m = re.match(r"(C\d\d-[A-Z]) check=(C\d\d) rc=(\d+)\s*(.*)", ln)
        if not m:
            continue
        sid, chk, rc, rest = m.group(1), m.group(2), int(m.group(3)), m.group(4)
        cl = re.findall(r"clauses=(\[[^\]]*\])", rest)
        res[(sid, chk)] = (rc, sorted(set(cl)))
        first.setdefault((sid, chk), rc)
rows = []
for (sid, chk), (rc, cl) in sorted(res.items()):
    meta_p = Path("/verif/seeded") / sid / "meta.json"
    meta = json.loads(meta_p.read_text())
    note = notes.get(sid, "")
    if first[(sid, chk)] != 1 and rc == 1 and not note.startswith("missed at first"):
        note = "missed at first; " + note
    if chk == meta["property"]:
        meta["detected_by"] = {"check": chk, "tier": "quick", "seed": 0, "exit": rc, "clauses": "; ".join(cl),
                               "how": "tools/matrix.sh (change applied in a scratch worktree of /repo HEAD via VERIF_REPO; worktree removed afterwards)",
                               "strengthening_needed": note}
        meta_p.write_text(json.dumps(meta, indent=1))
    what = meta["what_it_needs_to_manifest"].strip().splitlines()
    what = next((w for w in what if w.strip() and not w.startswith("#")), "")[:140].replace("|", "/")
    rows.append(f"| {sid} | {what} | {chk} | {'DETECTED (exit 1)' if rc == 1 else 'MISSED (exit %d)' % rc} | `{'; '.join(cl)}` | {note} |")
det = sum(1 for (rc, _) in res.values() if rc == 1)
firstdet = sum(1 for k in res if first[k] == 1)
md = Path("/verif/seeded/MATRIX.md")
s = md.read_text()
s = re.sub(r"\nDetected overall: .*\n?$", "\n", s)
s += f"\n\n## {title}\n\n| seeded change | what it is (one line) | check | result | failing clauses | note |\n|---|---|---|---|---|---|\n" + "\n".join(rows)
s += f"\n\n{title.split('(')[0].strip()}: detected {det} of {len(res)} ({firstdet} on the first run, {det - firstdet} after strengthening).\n"
total = len([p for p in Path('/verif/seeded').iterdir() if p.is_dir()])
alld = sum(1 for p in Path('/verif/seeded').iterdir() if p.is_dir() and json.loads((p / 'meta.json').read_text()).get('detected_by', {}).get('exit') == 1)
s += f"\nDetected overall: {alld} of {total}.\n"
md.write_text(s)
print(f"{det}/{len(res)} detected; overall {alld}/{total}")
