#!/bin/bash
# soundness sweep on the unchanged tree: every registered check under several seeds; prints one line per run
cd "$(dirname "$0")/.."
for sd in ${SEEDS:-1 2 3}; do
  for p in ${PROPS:-$(python3 -c "import json;print(' '.join(c['property_id'] for c in json.load(open('MANIFEST.json'))['checks']))")}; do
    out=$(VERIF_SEED=$sd nice -n ${NICE:-10} ./check $p --tier ${TIER:-quick} 2>&1); rc=$?
    echo "seed=$sd $p rc=$rc $(echo "$out" | grep -E 'VIOLATION|MACHINERY' | head -3 | cut -c1-300)"
  done
done
