#!/bin/bash
# usage: seedtest.sh <patch.diff> <check-id>...   -- apply a seeded change to /repo, run checks, ALWAYS revert
P=$1; shift
cd /repo || exit 2
[ -z "$(git status --porcelain -uno)" ] || { echo "/repo not clean"; exit 2; }
git apply "$P" || { echo "patch does not apply"; exit 2; }
trap 'git -C /repo checkout -- . ' EXIT
for c in "$@"; do
  ( cd /verif && ./check $c --tier ${TIER:-quick} 2>&1 | grep -E "VIOLATION|KNOWN-FINDING|MACHINERY|tier=" | cut -c1-330 )
  echo "-- $c exit=${PIPESTATUS[0]}"
done
