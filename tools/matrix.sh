#!/bin/bash
# Detection matrix: every seeded change x the check of its own property (plus extra checks given as arguments).
# The change is applied in a scratch git worktree of /repo HEAD (VERIF_REPO points the check at it); /repo is untouched.
# usage: tools/matrix.sh [ids...]    output: one line per (seed, check)
cd "$(dirname "$0")/.."
WT=${MATRIX_WT:-/tmp/wt-matrix}
git -C /repo worktree remove --force $WT 2>/dev/null
git -C /repo worktree add -q --detach $WT HEAD || exit 2
trap 'git -C /repo worktree remove --force $WT' EXIT
ids=${@:-$(ls seeded)}
for id in $ids; do
  git -C $WT checkout -q -- . 
  if ! git -C $WT apply /verif/seeded/$id/patch.diff 2>/dev/null; then echo "$id PATCH-DOES-NOT-APPLY"; continue; fi
  prop=${id%-*}
  extra=$(python3 -c "import json;print(' '.join(json.load(open('seeded/$id/meta.json')).get('also_check',[])))")
  for c in $prop $extra; do
    out=$(VERIF_REPO=$WT ./check $c --tier ${TIER:-quick} 2>&1); rc=$?
    echo "$id check=$c rc=$rc $(echo "$out" | grep -E 'VIOLATION' | head -2 | cut -c1-260 | tr '\n' ' ') $(echo "$out" | grep -E 'MACHINERY' | head -1 | cut -c1-200)"
  done
done
