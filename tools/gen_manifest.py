"""Generates MANIFEST.json from the list of implemented checks (vlib/props/*.py)."""
import json
from pathlib import Path

V = Path(__file__).resolve().parent.parent
props = [json.loads(l) for l in (V / "properties.jsonl").read_text().splitlines() if l.strip()]
impl = sorted(p.stem.upper() for p in (V / "vlib" / "props").glob("c[0-9][0-9].py"))
NOTES = {
    "C05": "TLC explores both transducer models on every text over the stated alphabets; every explored text, ASCII sweeps, Unicode representatives, seeded random texts and outputs crossing the 8 KiB writer boundaries go through the real pure-Python and compiled classes, and TLC validates each recorded pair",
}
checks = []
for p in props:
    i = p["id"]
    if i not in impl:
        continue
    checks.append({
        "property_id": i,
        "quick_cmd": f"./check {i} --tier quick",
        "thorough_cmd": f"./check {i} --tier thorough",
        "evidence_file": f"evidence/{i}.json",
        "replay_cmd_template": f"./check {i} --replay {{path}}",
        "engine": "tlc",
        "level_claimed": {
            "category": "model_checking",
            "text": NOTES.get(i, "TLC exhaustively explores the bounded TLA+ model(s) of the mechanism behind this property (Level I implementation-shaped model against the Level A contract transcribed from the property / RFC 3986), and the specification is bound to the code: behaviours/inputs enumerated by the model plus seeded generated programs are executed on the real library under both quoting back ends, every call is recorded (arguments, full observation of receiver and result, exception type) and TLC evaluates the property's TLA+ clauses on every recorded transition"),
            "design_ref": f"DESIGN.md section 5 ({i})",
        },
        "level_note": "bounded exploration (alphabets, lengths and counts are in the evidence file); trusted: TLC 1.8.0 + CommunityModules Json, my transcription of RFC 3986 (self-checked by ASSUMEd RFC tables), CPython 3.12, unicodedata/idna/urllib tables as environment constants, the recording harness (copies values only)",
        "technique": "explicit TLA+ specification checked with TLC (bounded model checking) + spec-to-code replay + trace validation of recorded implementation observations against the TLA+ contracts",
    })
na = [{"property_id": p["id"], "reason": "check not built yet in this session (work in progress; the TLA+ formulation is in DESIGN.md section 5)"}
      for p in props if p["id"] not in impl]
m = {
    "version": 1,
    "setup_cmd": "true",
    "hooks": {
        "guard": "YARL_VERIF",
        "enable": "no source hooks are needed: every check observes the public API of a scratch copy of /repo's current working tree (rebuilt, including the Cython extension, on every run); recording uses the public API, a pytest plugin that wraps the public methods of the scratch copy (suite harvest) and sys.settrace (C20 baton scheduler); the two object caches and the three host caches are re-wrapped / configured by the harness through their public or module-level handles, never by editing sources",
        "baseline_off_cmd": "cd /repo && /venv/bin/python -m pytest -ra -q -p no:cacheprovider --timeout=900 --continue-on-collection-errors",
        "source_commits": [],
        "add_only": True,
    },
    "engines": [{"name": "tlc", "path": "/opt/veriftools/tla/tla2tools.jar", "serves_properties": impl,
                 "kind_free_text": "TLC 1.8.0: bounded model checking of /verif/spec/MC_*.tla and trace validation (/verif/spec/Trace*.tla) of observations recorded from the real code"}],
    "checks": checks,
    "not_applicable": na,
    "notes": "Genuine defects found are either repaired by fix: commits in /repo or listed in known_findings.json (see DESIGN.md section 6).",
}
(V / "MANIFEST.json").write_text(json.dumps(m, indent=1))
print("claimed:", impl)
