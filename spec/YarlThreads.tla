---------------------------- MODULE YarlThreads ----------------------------
(***************************************************************************)
(* C20 -- the memory machine of YarlMem.tla with THREADS: every cache       *)
(* lookup / compute / store of the code is a separately scheduled step      *)
(* (interleaving granularity = the code's own atomic steps under the GIL:   *)
(* a C-level lru_cache lookup or dict store is one step, Python-level       *)
(* bodies are split at every cache read/store and global read).             *)
(*                                                                          *)
(*  CtorLookup/CtorCompute/CtorStore   URL(s): lru_cache miss path; two     *)
(*        threads may both compute and both store (the loser's object is    *)
(*        simply not shared)                                                *)
(*  PropCheck/PropCompute/PropStore    under_cached_property on a SHARED    *)
(*        object: both threads may compute; stores are idempotent           *)
(*  CacheClear / Configure             re-binding of the module-level host  *)
(*        cache while other threads are inside it                           *)
(*  QuoteBegin / QuoteEnd              the compiled quoter owns the static   *)
(*        BUFFER from _init_writer to return; with QuoterMayYield = FALSE    *)
(*        (the code as written: no nogil section, no Python callback while   *)
(*        the buffer is live) the two are ONE step                           *)
(*                                                                          *)
(* Properties: CacheCoherent / LruCoherent / WrapperCoherent in EVERY        *)
(* intermediate state, Immutable, SequentialResults (every completed call    *)
(* returned what a sequential run returns), BufferExclusive.                 *)
(* Negative configurations (each must yield a counterexample):               *)
(*   QuoterMayYield = TRUE         -> BufferExclusive / SequentialResults    *)
(*   ProvisionalPublish = TRUE     -> SequentialResults (a cache entry is    *)
(*        published before it is final and another thread reads it)          *)
(***************************************************************************)
EXTENDS Naturals, Sequences, FiniteSets, TLC
CONSTANTS Threads, MaxSize, Programs, QuoterMayYield, ProvisionalPublish
ProgramsDef == { <<<<"ctor","s1">>, <<"get","s1","q">>, <<"get","s1","p">>>>, <<<<"ctor","s1">>, <<"configure">>, <<"get","s1","q">>>>,
                 <<<<"ctor","s2">>, <<"ctor","s1">>, <<"clear">>>>, <<<<"quote","s1">>, <<"ctor","s1">>, <<"get","s1","p">>>>,
                 <<<<"quote","s2">>, <<"quote","s1">>>> }
ProgramsQuick == { <<<<"ctor","s1">>, <<"get","s1","q">>>>, <<<<"ctor","s1">>, <<"configure">>, <<"get","s1","q">>>>,
                   <<<<"quote","s1">>, <<"get","s1","p">>>>, <<<<"quote","s2">>, <<"clear">>>> }
Strs == {"s1", "s2"}
Props == {"p", "q"}
Parse(s) == IF s = "s1" THEN "v1" ELSE "v2"
Host(v) == <<"h", v>>                      \* pure, computed through the re-bindable module cache
Derive(p, v) == IF p = "p" THEN <<"p", v>> ELSE <<"q", Host(v)>>
VARIABLES heap,      \* Seq of [val, cache]  (object id = index)
          lru,       \* constructor LRU: Seq of <<str, oid>>, most recent last
          wrapper,   \* current binding of the host cache: [gen, entries]  entries: set of <<v, hostvalue>>
          th,        \* per thread: [prog, pc, tmp, out]
          cfg,       \* cache_configure progress: 0 idle
          bufOwner,  \* set of threads currently writing through the static BUFFER
          bufText    \* what the BUFFER holds (the input of the thread that wrote last)
vars == <<heap, lru, wrapper, th, cfg, bufOwner, bufText>>
Op(t) == Head(th[t].prog)
Quoted(s) == <<"quoted", s>>
Init == /\ heap = <<>> /\ lru = <<>> /\ wrapper = [gen |-> 0, entries |-> {}] /\ cfg = 0 /\ bufOwner = {} /\ bufText = "none"
        /\ th \in [Threads -> {[prog |-> p, pc |-> "idle", tmp |-> <<>>, out |-> <<>>] : p \in Programs}]
Done(t, r) == th' = [th EXCEPT ![t] = [prog |-> Tail(@.prog), pc |-> "idle", tmp |-> <<>>, out |-> Append(@.out, r)]]
LruFind(s) == {i \in 1..Len(lru) : lru[i][1] = s}
Touch(i) == [k \in 1..Len(lru) |-> IF k < i THEN lru[k] ELSE IF k < Len(lru) THEN lru[k+1] ELSE lru[i]]
\* ---- constructor URL(s): lookup -> (hit) | compute -> store
CtorLookup(t) == /\ th[t].pc = "idle" /\ th[t].prog # <<>> /\ Op(t)[1] = "ctor"
                 /\ LET hit == LruFind(Op(t)[2]) IN
                    IF hit # {} THEN LET i == CHOOSE i \in hit : TRUE IN
                         /\ lru' = Touch(i) /\ Done(t, <<"obj", heap[lru[i][2]].val>>) /\ UNCHANGED <<heap, wrapper, cfg, bufOwner, bufText>>
                    ELSE /\ th' = [th EXCEPT ![t].pc = "ctor_compute"] /\ UNCHANGED <<heap, lru, wrapper, cfg, bufOwner, bufText>>
CtorCompute(t) == /\ th[t].pc = "ctor_compute"
                  /\ heap' = Append(heap, [val |-> Parse(Op(t)[2]), cache |-> <<>>])
                  /\ th' = [th EXCEPT ![t].pc = "ctor_store", ![t].tmp = <<Len(heap) + 1>>]
                  /\ UNCHANGED <<lru, wrapper, cfg, bufOwner, bufText>>
CtorStore(t) == /\ th[t].pc = "ctor_store"
                /\ LET o == th[t].tmp[1]
                       ins == IF MaxSize = 0 THEN lru
                              ELSE IF LruFind(Op(t)[2]) # {} THEN lru      \* somebody else stored meanwhile
                              ELSE IF Len(lru) >= MaxSize THEN Append(Tail(lru), <<Op(t)[2], o>>)
                              ELSE Append(lru, <<Op(t)[2], o>>)
                   IN lru' = ins /\ Done(t, <<"obj", heap[o].val>>)
                /\ UNCHANGED <<heap, wrapper, cfg, bufOwner, bufText>>
\* ---- property read on the object currently cached for a string (shared object!)
Target(t) == LET hit == LruFind(Op(t)[2]) IN IF hit = {} THEN 0 ELSE lru[CHOOSE i \in hit : TRUE][2]
HasKey(o, p) == \E k \in 1..Len(heap[o].cache) : heap[o].cache[k][1] = p
GetKey(o, p) == heap[o].cache[CHOOSE k \in 1..Len(heap[o].cache) : heap[o].cache[k][1] = p][2]
PropCheck(t) == /\ th[t].pc = "idle" /\ th[t].prog # <<>> /\ Op(t)[1] = "get"
                /\ LET o == Target(t) IN
                   IF o = 0 THEN Done(t, <<"skip">>) /\ UNCHANGED <<heap, lru, wrapper, cfg, bufOwner, bufText>>
                   ELSE IF HasKey(o, Op(t)[3]) THEN Done(t, <<"val", heap[o].val, Op(t)[3], GetKey(o, Op(t)[3])>>) /\ UNCHANGED <<heap, lru, wrapper, cfg, bufOwner, bufText>>
                   ELSE th' = [th EXCEPT ![t].pc = "prop_compute", ![t].tmp = <<o>>] /\ UNCHANGED <<heap, lru, wrapper, cfg, bufOwner, bufText>>
PropCompute(t) == /\ th[t].pc = "prop_compute"
                  /\ LET o == th[t].tmp[1] IN
                     th' = [th EXCEPT ![t].pc = "prop_store", ![t].tmp = <<o, Derive(Op(t)[3], heap[o].val)>>]
                  /\ wrapper' = IF Op(t)[3] = "q" THEN [wrapper EXCEPT !.entries = @ \cup {<<heap[th[t].tmp[1]].val, Host(heap[th[t].tmp[1]].val)>>}] ELSE wrapper
                  /\ UNCHANGED <<heap, lru, cfg, bufOwner, bufText>>
\* negative configuration: the entry is published with a provisional (wrong) value before the final store
PropProvisional(t) == /\ ProvisionalPublish /\ th[t].pc = "prop_store"
                      /\ LET o == th[t].tmp[1] IN
                         /\ ~HasKey(o, Op(t)[3])
                         /\ heap' = [heap EXCEPT ![o].cache = Append(@, <<Op(t)[3], <<"provisional">> >>)]
                      /\ th' = [th EXCEPT ![t].pc = "prop_store2"]
                      /\ UNCHANGED <<lru, wrapper, cfg, bufOwner, bufText>>
PropStore2(t) == /\ th[t].pc = "prop_store2"
                 /\ LET o == th[t].tmp[1] v == th[t].tmp[2] IN
                    /\ heap' = [heap EXCEPT ![o].cache = [k \in 1..Len(@) |-> IF @[k][1] = Op(t)[3] THEN <<Op(t)[3], v>> ELSE @[k]]]
                    /\ Done(t, <<"val", heap[o].val, Op(t)[3], v>>)
                 /\ UNCHANGED <<lru, wrapper, cfg, bufOwner, bufText>>
\* ---- the compiled quoter and its process-global static BUFFER
QuoteAtomic(t) == /\ ~QuoterMayYield /\ th[t].pc = "idle" /\ th[t].prog # <<>> /\ Op(t)[1] = "quote"
                  /\ bufText' = Op(t)[2] /\ Done(t, <<"quoted", Op(t)[2], Quoted(Op(t)[2])>>)
                  /\ UNCHANGED <<heap, lru, wrapper, cfg, bufOwner>>
QuoteBegin(t) == /\ QuoterMayYield /\ th[t].pc = "idle" /\ th[t].prog # <<>> /\ Op(t)[1] = "quote"
                 /\ bufOwner' = bufOwner \cup {t} /\ bufText' = Op(t)[2]
                 /\ th' = [th EXCEPT ![t].pc = "quoting"] /\ UNCHANGED <<heap, lru, wrapper, cfg>>
QuoteEnd(t) == /\ th[t].pc = "quoting"
               /\ bufOwner' = bufOwner \ {t}
               /\ Done(t, <<"quoted", Op(t)[2], Quoted(bufText)>>)        \* the result is read back from the shared buffer
               /\ UNCHANGED <<heap, lru, wrapper, cfg, bufText>>
PropStore(t) == /\ th[t].pc = "prop_store"
                /\ LET o == th[t].tmp[1] v == th[t].tmp[2] IN
                   /\ heap' = [heap EXCEPT ![o].cache = IF HasKey(o, Op(t)[3]) THEN @ ELSE Append(@, <<Op(t)[3], v>>)]
                   /\ Done(t, <<"val", heap[o].val, Op(t)[3], v>>)
                /\ UNCHANGED <<lru, wrapper, cfg, bufOwner, bufText>>
\* ---- cache_clear / cache_configure (re-bind: new generation, empty entries)
CacheClear(t) == /\ th[t].pc = "idle" /\ th[t].prog # <<>> /\ Op(t)[1] = "clear"
                 /\ wrapper' = [wrapper EXCEPT !.entries = {}] /\ Done(t, <<"none">>) /\ UNCHANGED <<heap, lru, cfg, bufOwner, bufText>>
Configure(t) == /\ th[t].pc = "idle" /\ th[t].prog # <<>> /\ Op(t)[1] = "configure"
                /\ wrapper' = [gen |-> wrapper.gen + 1, entries |-> {}] /\ Done(t, <<"none">>) /\ UNCHANGED <<heap, lru, cfg, bufOwner, bufText>>
Step(t) == \/ CtorLookup(t) \/ CtorCompute(t) \/ CtorStore(t) \/ PropCheck(t) \/ PropCompute(t) \/ PropStore(t)
           \/ PropProvisional(t) \/ PropStore2(t) \/ CacheClear(t) \/ Configure(t) \/ QuoteAtomic(t) \/ QuoteBegin(t) \/ QuoteEnd(t)
Next == \E t \in Threads : Step(t)
Spec == Init /\ [][Next]_vars
\* ---- properties
CacheCoherent == ProvisionalPublish \/ \A o \in 1..Len(heap) : \A k \in 1..Len(heap[o].cache) : heap[o].cache[k][2] = Derive(heap[o].cache[k][1], heap[o].val)
BufferExclusive == Cardinality(bufOwner) <= 1
LruCoherent == \A i \in 1..Len(lru) : heap[lru[i][2]].val = Parse(lru[i][1])
WrapperCoherent == \A e \in wrapper.entries : e[2] = Host(e[1])
Immutable == [][\A o \in 1..Len(heap) : heap'[o].val = heap[o].val]_vars
SequentialResults == \A t \in Threads : \A k \in 1..Len(th[t].out) :
     LET r == th[t].out[k] IN
       /\ (r[1] = "val" => r[4] = Derive(r[3], r[2]))
       /\ (r[1] = "quoted" => r[3] = Quoted(r[2]))
LruBounded == Len(lru) <= (IF MaxSize = 0 THEN 0 ELSE MaxSize)
=============================================================================
