----------------------------- MODULE HostCachesOps ---------------------------
(***************************************************************************)
(* LEVEL I of the three module-level host caches of yarl/_url.py           *)
(*     _encode_host(host, validate_host)   lru_cache(512)                  *)
(*     _idna_encode(host)                  lru_cache(256)                  *)
(*     _idna_decode(raw)                   lru_cache(256)                  *)
(* as functools.lru_cache behaves: a bounded cache is a recency-ordered    *)
(* list of keys (hit: counted, moved to the end; miss: counted BEFORE the  *)
(* function runs, the result stored only if the function returned, the     *)
(* oldest key evicted when full); maxsize 0 counts every call as a miss    *)
(* and stores nothing; maxsize None never evicts.  _encode_host calls      *)
(* _idna_encode from inside a miss exactly when the host needs IDNA        *)
(* (ImplUrl!EncodeHost is `gray`): a NESTED lookup in another cache.       *)
(* cache_clear() empties the three caches and zeroes their counters;       *)
(* cache_configure() re-wraps the three functions in NEW caches.           *)
(*                                                                         *)
(* YarlMem.tla abstracts these caches to a set of (key, result) pairs; this *)
(* module refines that to sizes, recency, eviction and the counters that    *)
(* cache_info() publishes, so that cache_info() can be PREDICTED from the   *)
(* history (TraceCaches.tla compares the prediction with the library after  *)
(* every call of a TLC-generated behaviour).                               *)
(***************************************************************************)
EXTENDS ImplUrl, TLC
Unbounded == 0 - 1
CacheNames == {"encode_host", "idna_encode", "idna_decode"}
DefaultSizes == [encode_host |-> 512, idna_encode |-> 256, idna_decode |-> 256]
\* hosts: ASCII reg-names (one invalid under validation), IP literals, IDN hosts (one whose NFKC mapping contains '/')
HostPool == { <<101,120,97,109,112,108,101,46,99,111,109>>, <<69,88,65,77,80,76,69,46,111,114,103>>, <<97,95,98>>, <<97,32,98>>,
              <<49,46,50,46,51,46,52>>, <<58,58,49>>, <<98,252,99,104,101,114,46,101,120,97,109,112,108,101>>,
              <<26085,26412,46,106,112>>, <<8448>> }
RawPool == { <<120,110,45,45,98,99,104,101,114,45,107,118,97,46,101,120,97,109,112,108,101>>, <<101,120,97,109,112,108,101,46,99,111,109>>,
             <<58,58,49>>, <<120,110,45,45,122,122>> }
SizePool == {0, 1, 2, Unbounded}
AllSizeChoices == [CacheNames -> SizePool]
SmallHosts == { <<69,88,65,77,80,76,69,46,111,114,103>>, <<97,32,98>>, <<98,252,99,104,101,114,46,101,120,97,109,112,108,101>>, <<8448>> }
SmallRaws == { <<120,110,45,45,98,99,104,101,114,45,107,118,97,46,101,120,97,109,112,108,101>> }
\* every cache the same size, plus the mixes in which the nested cache is smaller / larger than the outer one
SmallSizeChoices == {[n \in CacheNames |-> z] : z \in {0, 1, Unbounded}}
                    \cup {[encode_host |-> 1, idna_encode |-> 0, idna_decode |-> 1], [encode_host |-> 0, idna_encode |-> 2, idna_decode |-> 0]}

Empty(max) == [max |-> max, keys |-> <<>>, hits |-> 0, misses |-> 0]
InitCaches == [n \in CacheNames |-> Empty(DefaultSizes[n])]
Range_(q) == {q[i] : i \in DOMAIN q}
MoveToEnd(q, k) == SelectSeq(q, LAMBDA x : x # k) \o <<k>>
IsHit(c, k) == c.max # 0 /\ k \in Range_(c.keys)
\* one lookup of key k; `stores`: the wrapped function returned (an exception is never cached)
Lookup(c, k, stores) ==
  IF c.max = 0 THEN [c EXCEPT !.misses = @ + 1]
  ELSE IF k \in Range_(c.keys) THEN [c EXCEPT !.hits = @ + 1, !.keys = IF c.max = Unbounded THEN @ ELSE MoveToEnd(@, k)]
  ELSE LET c1 == [c EXCEPT !.misses = @ + 1] IN
       IF ~stores THEN c1
       ELSE [c1 EXCEPT !.keys = (IF c.max # Unbounded /\ Len(@) >= c.max THEN Tail(@) ELSE @) \o <<k>>]

NeedsIdna(h, flag) == "gray" \in DOMAIN EncodeHost(h, flag)
\* _encode_host(h, validate_host=flag): outerOk / innerOk say whether the call / the nested _idna_encode returned
AfterEncodeHost(cs, h, flag, innerOk, outerOk) ==
  LET k == <<h, flag>> IN
  IF IsHit(cs.encode_host, k) THEN [cs EXCEPT !.encode_host = Lookup(@, k, TRUE)]
  ELSE IF NeedsIdna(h, flag)
       THEN [cs EXCEPT !.idna_encode = Lookup(@, <<h>>, innerOk), !.encode_host = Lookup(@, k, outerOk)]
       ELSE [cs EXCEPT !.encode_host = Lookup(@, k, outerOk)]
AfterIdnaEncode(cs, h, ok) == [cs EXCEPT !.idna_encode = Lookup(@, <<h>>, ok)]
AfterIdnaDecode(cs, raw, ok) == [cs EXCEPT !.idna_decode = Lookup(@, <<raw>>, ok)]
AfterClear(cs) == [n \in CacheNames |-> Empty(cs[n].max)]
AfterConfigure(sizes) == [n \in CacheNames |-> Empty(sizes[n])]

=============================================================================
