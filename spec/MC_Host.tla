------------------------------- MODULE MC_Host -------------------------------
(***************************************************************************)
(* R1 for C16: TLC enumerates abstract IPv6 addresses (eight groups over a *)
(* small value set) and SPELLINGS of each (where "::" stands, leading      *)
(* zeros, upper case, IPv4 tail) and checks on the Level I host encoder    *)
(* (ImplUrl!EncodeHost) that every spelling is stored as the one canonical *)
(* compressed lower-case bracketed form, that encoding is idempotent, and  *)
(* that ASCII reg-names are lower-cased / validated.                       *)
(***************************************************************************)
EXTENDS ContractUrl, ImplUrl, HostTables, TLC
GroupVals == {0, 1, 2748}          \* 0, 1, 0xabc
CONSTANT NVary                     \* how many of the eight groups vary (the others are 0)
VARIABLE gs                        \* the varying groups chosen so far
Init == gs = <<>>
Next == \E x \in GroupVals : Len(gs) < NVary /\ gs' = Append(gs, x)
\* the varying groups are spread over the address: positions 1, 8, 4, 5, 2, 7, 3, 6
Pos == <<1, 8, 4, 5, 2, 7, 3, 6>>
G == [i \in 1..8 |-> IF \E k \in 1..Len(gs) : Pos[k] = i THEN gs[CHOOSE k \in 1..Len(gs) : Pos[k] = i] ELSE 0]
HexUp(t) == [i \in 1..Len(t) |-> IF t[i] \in 97..102 THEN t[i] - 32 ELSE t[i]]
Pad4(t) == [i \in 1..(4 - Len(t)) |-> 48] \o t
GText(x, lz, up) == LET t0 == HexText(x) t1 == IF lz THEN Pad4(t0) ELSE t0 IN IF up THEN HexUp(t1) ELSE t1
TailV4(g) == NatText(g[7] \div 256) \o <<DOT>> \o NatText(g[7] % 256) \o <<DOT>> \o NatText(g[8] \div 256) \o <<DOT>> \o NatText(g[8] % 256)
\* dc: index where "::" replaces a zero run (0 = none); lz: leading zeros; up: upper case; v4: IPv4 tail
Spelling(g, dc, lz, up, v4) ==
  LET last == IF v4 THEN 6 ELSE 8
      tail == IF v4 THEN <<TailV4(g)>> ELSE <<>>
      run == IF dc = 0 THEN 0 ELSE ZeroRun(g, dc)
      pieces(a, b) == [k \in 1..(b - a + 1) |-> GText(g[a + k - 1], lz, up)] IN
  IF dc = 0 \/ run = 0 \/ dc + run - 1 > last THEN JoinWith(pieces(1, last) \o tail, COLON)
  ELSE JoinWith(pieces(1, dc - 1), COLON) \o <<COLON, COLON>> \o JoinWith(pieces(dc + run, last) \o tail, COLON)
Choices == (0..8) \X BOOLEAN \X BOOLEAN \X BOOLEAN
Sp(c) == Spelling(G, c[1], c[2], c[3], c[4])
Canon == Compressed(G)
Full == Len(gs) = NVary
Inv_Parse == Full => \A c \in Choices : ParseIPv6(Sp(c)) = G
Inv_Encode == Full => \A c \in Choices : LET e == EncodeHost(Sp(c), TRUE) IN IsOK(e) /\ e.ok = <<LBR>> \o Canon \o <<RBR>>
Inv_CanonRoundTrip == Full => (ParseIPv6(Canon) = G /\ Compressed(ParseIPv6(Canon)) = Canon)
Inv_Idempotent == Full => LET e2 == EncodeHost(Canon, TRUE) IN IsOK(e2) /\ e2.ok = <<LBR>> \o Canon \o <<RBR>>
Inv_LevelA == Full => \A c \in Choices : C16_ExpectedHost(Sp(c)) = <<Canon>>
Inv_Zone == Full => \A c \in Choices :
   LET ez == EncodeHost(Sp(c) \o <<PCT, 101, 84, 104>>, TRUE) IN IsOK(ez) /\ ez.ok = <<LBR>> \o Canon \o <<PCT, 101, 84, 104, RBR>>
=============================================================================
