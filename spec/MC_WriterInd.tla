---------------------------- MODULE MC_WriterInd ----------------------------
(* Apalache instance of Writer.tla for the UNBOUNDED inductive check (BUF = 8192 as in the code, outputs up to 10^6):
     apalache-mc check --init=Init    --inv=IndInv --length=0 MC_WriterInd.tla      (Init => IndInv)
     apalache-mc check --init=IndInit --inv=IndInv --length=1 MC_WriterInd.tla      (IndInv /\ Next => IndInv')  *)
EXTENDS Integers
VARIABLES
  \* @type: Str;
  pc,
  \* @type: Str;
  buf,
  \* @type: Int;
  size,
  \* @type: Int;
  pos,
  \* @type: Int;
  todo,
  \* @type: Int;
  liveHeap,
  \* @type: Bool;
  freedTwice,
  \* @type: Bool;
  freedStatic,
  \* @type: Bool;
  faultUsed,
  \* @type: Str;
  outcome,
  \* @type: Int;
  runs,
  \* @type: Int;
  written
BUF == 8192
MaxOut == 1000000
MaxRuns == 1000
INSTANCE Writer
=============================================================================
