----------------------------- MODULE HostCaches -----------------------------
(***************************************************************************)
(* The machine over HostCachesOps (see there): calls of the three cached   *)
(* functions, cache_clear, cache_configure in any order; R1 invariants of  *)
(* what cache_info() publishes, and the source of the behaviours that are  *)
(* replayed on the real library (R2, vlib/cachereplay.py, TraceCaches.tla).*)
(***************************************************************************)
EXTENDS HostCachesOps
CONSTANTS MaxCalls, Hosts, Raws, SizeChoices     \* instances: Hosts <- HostPool | SmallHosts, ...
\* ------------------------------------------------------------------ the machine (R1, and the source of behaviours for R2)
VARIABLES caches, lookups, last, ncalls
vars == <<caches, lookups, last, ncalls>>
Init == caches = InitCaches /\ lookups = [n \in CacheNames |-> 0] /\ last = [call |-> "none"] /\ ncalls = 0
Tick == ncalls < MaxCalls /\ ncalls' = ncalls + 1
Count(cs0, cs1) == [n \in CacheNames |-> lookups[n] + (cs1[n].hits + cs1[n].misses) - (cs0[n].hits + cs0[n].misses)]
EncodeHostCall ==
  /\ Tick /\ \E h \in Hosts, flag \in BOOLEAN, innerOk \in BOOLEAN, outerOk \in BOOLEAN :
       /\ (NeedsIdna(h, flag) => (outerOk => innerOk))
       /\ (~NeedsIdna(h, flag) => (innerOk /\ outerOk = IsOK(EncodeHost(h, flag))))     \* Level I decides the outcome itself
       /\ caches' = AfterEncodeHost(caches, h, flag, innerOk, outerOk)
       /\ lookups' = Count(caches, caches')
       /\ last' = [call |-> "encode_host", h |-> h, flag |-> flag]
IdnaEncodeCall ==
  /\ Tick /\ \E h \in Hosts, ok \in BOOLEAN :
       /\ caches' = AfterIdnaEncode(caches, h, ok) /\ lookups' = Count(caches, caches')
       /\ last' = [call |-> "idna_encode", h |-> h]
IdnaDecodeCall ==
  /\ Tick /\ \E raw \in Raws, ok \in BOOLEAN :
       /\ caches' = AfterIdnaDecode(caches, raw, ok) /\ lookups' = Count(caches, caches')
       /\ last' = [call |-> "idna_decode", h |-> raw]
Clear == /\ Tick /\ caches' = AfterClear(caches) /\ lookups' = [n \in CacheNames |-> 0] /\ last' = [call |-> "cache_clear"]
Configure ==
  /\ Tick /\ \E sizes \in SizeChoices :
       /\ caches' = AfterConfigure(sizes) /\ lookups' = [n \in CacheNames |-> 0]
       /\ last' = [call |-> "cache_configure", sizes |-> sizes]
Next == EncodeHostCall \/ IdnaEncodeCall \/ IdnaDecodeCall \/ Clear \/ Configure
Spec == Init /\ [][Next]_vars

\* what cache_info() must say in every state
Inv_Bounded == \A n \in CacheNames : caches[n].max # Unbounded => Len(caches[n].keys) <= caches[n].max
Inv_NoDuplicates == \A n \in CacheNames : \A i, j \in 1..Len(caches[n].keys) : caches[n].keys[i] = caches[n].keys[j] => i = j
Inv_Accounting == \A n \in CacheNames : caches[n].hits + caches[n].misses = lookups[n]
Inv_ZeroSizeStoresNothing == \A n \in CacheNames : caches[n].max = 0 => (caches[n].keys = <<>> /\ caches[n].hits = 0)
\* a hit never changes what is cached, only its recency; the nested cache is touched only from inside an outer miss
Prop_HitKeepsContents ==
  [][\A n \in CacheNames : (caches'[n].hits > caches[n].hits /\ caches'[n].max = caches[n].max)
        => Range_(caches'[n].keys) = Range_(caches[n].keys)]_vars
Prop_NestedOnlyOnOuterMiss ==
  [][(last'.call = "encode_host" /\ caches'.idna_encode # caches.idna_encode)
        => caches'.encode_host.misses = caches.encode_host.misses + 1]_vars
=============================================================================
