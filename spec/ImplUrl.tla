------------------------------ MODULE ImplUrl ------------------------------
(***************************************************************************)
(* LEVEL I -- implementation-shaped, deterministic model of yarl's URL     *)
(* value: one operator per code path, written like the code (find /        *)
(* partition / slicing), modelling what the code DOES.  Partial operations *)
(* of the code (s[0], s[-1], int()) are total here and return              *)
(*    [ok |-> v]  |  [exc |-> "ValueError"]  |  [crash |-> "IndexError"]   *)
(* so that "never leaks IndexError" is an invariant TLC can violate.       *)
(* Known discrepancies with the contracts are named Dev_* (see DESIGN 6).  *)
(*                                                                         *)
(*  spec operator            code anchor                                   *)
(*  SplitUrl                 yarl/_parse.py:split_url                      *)
(*  SplitNetloc              yarl/_parse.py:split_netloc                   *)
(*  MakeNetloc               yarl/_parse.py:make_netloc                    *)
(*  UnsplitResult            yarl/_parse.py:unsplit_result                 *)
(*  NormalizePathSegments    yarl/_path.py:normalize_path_segments         *)
(*  NormalizePath            yarl/_path.py:normalize_path                  *)
(*  RawUser .. HostPortSub   yarl/_url.py cached properties                *)
(*  Str                      yarl/_url.py:URL.__str__                      *)
(***************************************************************************)
EXTENDS Text, Env, ImplQuote, Host

OK(v)    == [ok |-> v]
EXC(n)   == [exc |-> n]
CRASH(n) == [crash |-> n]
IsOK(r)  == "ok" \in DOMAIN r
NONE     == <<>>
SOME(x)  == <<x>>
IsNone(o) == o = <<>>
Get(o)    == o[1]

Dev_EmptyBracketIndex == Off
\* unsplit_result inserted "//" + "/" before a rootless path when the scheme is in uses_netloc and there
\* is no authority ('http:a/b' printed as 'http:///a/b').  FIXED in /repo (fix: commit 429a9b7) -> Off
Dev_RootlessPathGainsSlashInStr == Off

Url(scheme, netloc, path, query, fragment) ==
  [scheme |-> scheme, netloc |-> netloc, path |-> path, query |-> query, fragment |-> fragment]

\* ------------------------------------------------------------- split_url
\* bracket checks of split_url on a netloc that contains '['
BracketCheck(netloc) ==
  LET lb == Has(netloc, LBR) rb == Has(netloc, RBR) IN
  IF lb # rb THEN EXC("ValueError")
  ELSE IF ~lb THEN OK(TRUE)
  ELSE LET a == Find(netloc, LBR)
           b == FindIn(netloc, a + 1, {RBR})
           br == IF b = 0 THEN From(netloc, a + 1) ELSE Sub(netloc, a + 1, b - 1) IN
       \* Dev_EmptyBracketIndex: bracketed_host[0] on an empty bracket pair raised IndexError;
       \* FIXED in /repo (fix: commit 2) -> Off: bracketed_host[:1] falls through to the ValueError below
       IF br = <<>> /\ Dev_EmptyBracketIndex THEN CRASH("IndexError")
       ELSE IF br # <<>> /\ br[1] = 118 THEN                                    \* 'v': \Av[a-fA-F0-9]+\..+\Z
            LET dot == Find(br, DOT) IN
            IF dot >= 3 /\ (\A k \in 2..(dot - 1) : br[k] \in HexDig) /\ dot < Len(br)
               /\ ~HasAny(From(br, dot + 1), {10})
            THEN OK(TRUE) ELSE EXC("ValueError")
       ELSE IF ~Has(br, COLON) THEN EXC("ValueError")
       ELSE OK(TRUE)

\* _check_netloc: only for non-ASCII netlocs; NFKC of a character outside NfkcDelims never
\* produces a delimiter, so the screen fires iff some character of the netloc is in NfkcDelims
NfkcScreen(netloc) == IF HasAny(netloc, NfkcDelims) THEN EXC("ValueError") ELSE OK(TRUE)

SplitUrl(s0) ==
  LET s == Remove(LStripSet(s0, 0..32), {9, 13, 10})
      i == Find(s, COLON)
      okScheme == i > 1 /\ \A k \in 1..(i - 1) : s[k] \in SchemeChars
      scheme == IF okScheme THEN LowerS(Upto(s, i - 1)) ELSE <<>>
      u1 == IF okScheme THEN From(s, i + 1) ELSE s
      hasHash == Has(u1, HASH)
      hasQ == Has(u1, QMARK)
      isNet == Len(u1) >= 2 /\ u1[1] = SLASH /\ u1[2] = SLASH
      ds == {SLASH} \cup (IF hasQ THEN {QMARK} ELSE {}) \cup (IF hasHash THEN {HASH} ELSE {})
      w == IF isNet THEN FindIn(u1, 3, ds) ELSE 0
      delim == IF w = 0 THEN Len(u1) + 1 ELSE w
      netloc == IF isNet THEN Sub(u1, 3, delim - 1) ELSE <<>>
      u2 == IF isNet THEN From(u1, delim) ELSE u1
      bc == IF isNet THEN BracketCheck(netloc) ELSE OK(TRUE)
      h == Find(u2, HASH)
      frag == IF h = 0 THEN <<>> ELSE From(u2, h + 1)
      u3 == IF h = 0 THEN u2 ELSE Upto(u2, h - 1)
      q == Find(u3, QMARK)
      query == IF q = 0 THEN <<>> ELSE From(u3, q + 1)
      path == IF q = 0 THEN u3 ELSE Upto(u3, q - 1)
      nf == IF netloc # <<>> /\ ~IsAscii(netloc) THEN NfkcScreen(netloc) ELSE OK(TRUE)
  IN IF ~IsOK(bc) THEN bc
     ELSE IF ~IsOK(nf) THEN nf
     ELSE OK(Url(scheme, netloc, path, query, frag))

\* ----------------------------------------------------------- split_netloc
\* Python int() on ASCII text: optional surrounding whitespace, optional sign, digits with single
\* underscores between digits.  Non-ASCII text (Unicode digits / spaces) is outside the model: "gray".
\* int(str): Unicode white space above U+007F is first turned into ' ' (_PyUnicode_TransformDecimalAndSpaceToASCII), then the
\* ASCII parser strips \t \n \v \f \r and ' ' at both ends (the ASCII separators U+001C..U+001F are NOT stripped)
AsciiSpace == {9, 10, 11, 12, 13, 32}
UniSpace == {133, 160, 5760} \cup (8192..8202) \cup {8232, 8233, 8239, 8287, 12288}
RECURSIVE UnderscoreDigits(_, _)
\* digits with optional single '_' between digits, starting at i expecting a digit
UnderscoreDigits(t, i) ==
  IF i > Len(t) THEN FALSE
  ELSE IF t[i] \notin Digit THEN FALSE
  ELSE IF i = Len(t) THEN TRUE
  ELSE IF t[i + 1] = 95 THEN UnderscoreDigits(t, i + 2)
  ELSE UnderscoreDigits(t, i + 1)
PyInt(text0) ==
  LET text == [i \in 1..Len(text0) |-> IF text0[i] \in UniSpace THEN 32 ELSE text0[i]] IN
  IF ~IsAscii(text) THEN [gray |-> TRUE]          \* decimal digits of other scripts: outside the model
  ELSE LET t1 == RStripSet(LStripSet(text, AsciiSpace), AsciiSpace)
           neg == t1 # <<>> /\ t1[1] = 45
           t2 == IF t1 # <<>> /\ t1[1] \in {43, 45} THEN Tail(t1) ELSE t1
           ds == Remove(t2, {95}) IN
       IF t2 = <<>> \/ ~UnderscoreDigits(t2, 1) THEN EXC("ValueError")
       ELSE IF Len(LStripSet(ds, {48})) > 6 THEN OK(IF neg THEN 0 - 1 ELSE 9999999)   \* out of any port range
       ELSE OK(IF neg THEN 0 - DigitsVal(ds) ELSE DigitsVal(ds))

SplitNetloc(netloc) ==
  LET hasAt == Has(netloc, AT)
      rp == RPartition(netloc, AT)
      userinfo == IF hasAt THEN rp[1] ELSE <<>>
      hostinfo == IF hasAt THEN rp[3] ELSE netloc
      up == Partition(userinfo, COLON)
      username == IF hasAt THEN SOME(up[1]) ELSE NONE
      password == IF hasAt /\ up[2] THEN SOME(up[3]) ELSE NONE
      brk == Has(hostinfo, LBR)
      bracketed == Partition(hostinfo, LBR)[3]
      hp == IF brk THEN Partition(bracketed, RBR) ELSE Partition(hostinfo, COLON)
      hostname == hp[1]
      portStr == IF brk THEN Partition(hp[3], COLON)[3] ELSE hp[3]
      user1 == IF IsNone(username) \/ Get(username) = <<>> THEN NONE ELSE username   \* username or None
      host1 == IF hostname = <<>> THEN NONE ELSE SOME(hostname)                     \* hostname or None
  IN IF portStr = <<>> THEN OK([user |-> user1, password |-> password, host |-> host1, port |-> NONE])
     ELSE LET p == PyInt(portStr) IN
          IF "gray" \in DOMAIN p THEN p
          ELSE IF ~IsOK(p) THEN EXC("ValueError")
          ELSE IF p.ok < 0 \/ p.ok > 65535 THEN EXC("ValueError")
          ELSE OK([user |-> user1, password |-> password, host |-> host1, port |-> SOME(p.ok)])

\* ------------------------------------------------------------ make_netloc
\* port is an option of TEXT here (f"{port}" of whatever was passed), user/password/host options of text
MakeNetloc(user, password, host, portText, encode) ==
  IF IsNone(host) THEN <<>>
  ELSE LET ret == Get(host) \o (IF IsNone(portText) THEN <<>> ELSE <<COLON>> \o Get(portText)) IN
       IF IsNone(user) /\ IsNone(password) THEN ret
       ELSE LET u0 == IF IsNone(user) THEN <<>> ELSE Get(user)
                q(t) == IF encode THEN QuoteC(QUOTER, t) ELSE t
                ui == IF ~IsNone(password)
                      THEN (IF u0 = <<>> THEN <<>> ELSE q(u0)) \o <<COLON>> \o q(Get(password))
                      ELSE (IF u0 # <<>> THEN q(u0) ELSE u0) IN
            IF ui # <<>> THEN ui \o <<AT>> \o ret ELSE ret
PortText(p) == IF IsNone(p) THEN NONE ELSE SOME(NatText(Get(p)))

\* --------------------------------------------------------- unsplit_result
UnsplitResult(scheme, netloc, url, query, fragment) ==
  LET u1 == IF netloc # <<>> \/ (scheme # <<>> /\ scheme \in UsesNetloc) \/ StartsWith(url, <<SLASH, SLASH>>) THEN
               (IF url # <<>> /\ url[1] # SLASH /\ netloc = <<>> /\ ~Dev_RootlessPathGainsSlashInStr
                THEN scheme \o <<COLON>> \o url
                ELSE IF url # <<>> /\ url[1] # SLASH THEN
                   (IF scheme # <<>> THEN scheme \o <<COLON, SLASH, SLASH>> \o netloc \o <<SLASH>> \o url
                    ELSE scheme \o <<COLON>> \o url)
                ELSE (IF scheme # <<>> THEN scheme \o <<COLON, SLASH, SLASH>> \o netloc \o url
                      ELSE <<SLASH, SLASH>> \o netloc \o url))
            ELSE IF scheme # <<>> THEN scheme \o <<COLON>> \o url
            ELSE url
      u2 == IF query # <<>> THEN u1 \o <<QMARK>> \o query ELSE u1
  IN IF fragment # <<>> THEN u2 \o <<HASH>> \o fragment ELSE u2

\* ------------------------------------------------------------------ _path.py
RECURSIVE NpsFrom(_, _, _)
NpsFrom(segs, i, acc) ==
  IF i > Len(segs) THEN acc
  ELSE IF segs[i] = <<DOT, DOT>> THEN NpsFrom(segs, i + 1, IF acc = <<>> THEN acc ELSE Front(acc))
  ELSE IF segs[i] = <<DOT>> THEN NpsFrom(segs, i + 1, acc)
  ELSE NpsFrom(segs, i + 1, Append(acc, segs[i]))
NormalizePathSegments(segs) ==
  LET r == NpsFrom(segs, 1, <<>>) IN
  IF segs # <<>> /\ Last(segs) \in {<<DOT>>, <<DOT, DOT>>} THEN Append(r, <<>>) ELSE r
NormalizePath(path) ==
  LET rooted == path # <<>> /\ path[1] = SLASH
      p == IF rooted THEN Tail(path) ELSE path IN
  (IF rooted THEN <<SLASH>> ELSE <<>>) \o JoinWith(NormalizePathSegments(Split(p, SLASH)), SLASH)

\* ------------------------------------------------- lazily derived accessors
\* all four go through _cache_netloc -> split_netloc(self._netloc)
NetlocParts(u) == SplitNetloc(u.netloc)
RawUser(u)      == LET r == NetlocParts(u) IN IF IsOK(r) THEN OK(r.ok.user) ELSE r
RawPassword(u)  == LET r == NetlocParts(u) IN IF IsOK(r) THEN OK(r.ok.password) ELSE r
RawHost(u)      == LET r == NetlocParts(u) IN IF IsOK(r) THEN OK(r.ok.host) ELSE r
ExplicitPort(u) == LET r == NetlocParts(u) IN IF IsOK(r) THEN OK(r.ok.port) ELSE r
HostSubcomponent(u) ==
  LET r == RawHost(u) IN
  IF ~IsOK(r) THEN r ELSE IF IsNone(r.ok) THEN OK(NONE)
  ELSE OK(SOME(IF Has(Get(r.ok), COLON) THEN <<LBR>> \o Get(r.ok) \o <<RBR>> ELSE Get(r.ok)))
DefaultPortOf(scheme) ==
  CASE scheme = <<104,116,116,112>> -> SOME(80) [] scheme = <<104,116,116,112,115>> -> SOME(443)
    [] scheme = <<119,115>> -> SOME(80) [] scheme = <<119,115,115>> -> SOME(443)
    [] scheme = <<102,116,112>> -> SOME(21) [] OTHER -> NONE
RawPath(u) == IF u.path = <<>> /\ u.netloc # <<>> THEN <<SLASH>> ELSE u.path

\* ------------------------------------------------------------- URL.__str__
Str(u) ==
  LET path == IF u.path = <<>> /\ u.netloc # <<>> /\ (u.query # <<>> \/ u.fragment # <<>>) THEN <<SLASH>> ELSE u.path
      ep == ExplicitPort(u) IN
  IF ~IsOK(ep) THEN ep
  ELSE IF ~IsNone(ep.ok) /\ ep.ok = DefaultPortOf(u.scheme) THEN
       LET hs == HostSubcomponent(u) IN
       OK(UnsplitResult(u.scheme, MakeNetloc(RawUser(u).ok, RawPassword(u).ok, hs.ok, NONE, FALSE), path, u.query, u.fragment))
  ELSE OK(UnsplitResult(u.scheme, u.netloc, path, u.query, u.fragment))

\* ---------------------------------------------------------------- URL.join
\* Dev_JoinInheritsBaseFragment (the base fragment was inherited when the reference had neither path nor
\* fragment) and Dev_JoinMergesDecodedBase (decoded base directory) are FIXED in /repo -> not modelled.
\* Still present: for a base WITHOUT authority whose path is empty or rootless the code prefixes "/" to the
\* reference path (empty base path) and normalises with a stack that drops a leading ".." instead of
\* producing the "/" the literal 5.2.4 algorithm yields (Dev_JoinRootlessBase).
DirOf(p) == LET i == RFind(p, SLASH) IN IF i = 0 THEN <<>> ELSE Upto(p, i)
Join(b, r) ==
  LET scheme == IF r.scheme # <<>> THEN r.scheme ELSE b.scheme IN
  IF scheme # b.scheme \/ scheme \notin UsesRelative THEN r
  ELSE IF r.netloc # <<>> /\ scheme \in UsesNetloc THEN Url(scheme, r.netloc, r.path, r.query, r.fragment)
  ELSE LET p0 == IF r.path = <<>> THEN b.path
                 ELSE IF r.path[1] = SLASH THEN r.path
                 ELSE IF b.path = <<>> THEN <<SLASH>> \o r.path
                 ELSE DirOf(b.path) \o r.path
           p1 == IF r.path # <<>> /\ Has(p0, DOT) THEN NormalizePath(p0) ELSE p0
       IN Url(scheme, b.netloc, p1,
              IF r.path # <<>> \/ r.query # <<>> THEN r.query ELSE b.query,
              r.fragment)

\* ------------------------------------------------- __eq__ / __hash__ / ordering
NormPath(u) == IF u.path = <<>> /\ u.netloc # <<>> THEN <<SLASH>> ELSE u.path
HashKey(u) == <<u.scheme, u.netloc, NormPath(u), u.query, u.fragment>>
Eq(u, v)   == HashKey(u) = HashKey(v)
\* Python's str < str (code point lexicographic) and tuple < tuple
RECURSIVE StrLess(_, _)
StrLess(a, b) == IF b = <<>> THEN FALSE ELSE IF a = <<>> THEN TRUE
                 ELSE IF a[1] # b[1] THEN a[1] < b[1] ELSE StrLess(Tail(a), Tail(b))
RECURSIVE TupLess(_, _)
TupLess(a, b) == IF b = <<>> THEN FALSE ELSE IF a = <<>> THEN TRUE
                 ELSE IF a[1] # b[1] THEN StrLess(a[1], b[1]) ELSE TupLess(Tail(a), Tail(b))
ValTuple(u) == <<u.scheme, u.netloc, u.path, u.query, u.fragment>>
\* Dev_OrderingOnRawTuple: the ordering operators compare the RAW five-tuple while == compares the
\* normalised one (empty path under an authority == "/"): for 'http://a' vs 'http://a/' both == and < hold
Dev_OrderingOnRawTuple == On
OrdKey(u) == IF Dev_OrderingOnRawTuple THEN ValTuple(u) ELSE HashKey(u)
Lt(u, v) == TupLess(OrdKey(u), OrdKey(v))
Le(u, v) == OrdKey(u) = OrdKey(v) \/ Lt(u, v)
Gt(u, v) == Lt(v, u)
Ge(u, v) == Le(v, u)

\* ------------------------------------------------------ MultiDict.update (multidict 6.2 _update_items)
\* items, new: sequences of <<key, value>>.  For each new pair: replace the next occurrence of its key
\* (searching from the position after the last one used for that key), else append; afterwards "drop tails":
\* every occurrence of an updated key at or beyond its last used position is deleted.
\* Dev_MultiDictUpdateIndexShift: the drop-tails loop of multidict 6.2.0 (Python and C implementation alike) compares
\* the CURRENT index -- already shifted left by earlier deletions -- with positions recorded BEFORE any deletion, so once
\* one tail has been dropped the tails of every later key survive (a=1&a=2&b=1&b=2 updated with a=x, b=y gives
\* a=x&b=y&b=2).  With the deviation off the positions are compared unshifted (what the algorithm intends).
Dev_MultiDictUpdateIndexShift == On
RECURSIVE UpdStep(_, _, _, _)
UpdStep(items, new, i, used) ==        \* used: function key -> next start position (1-based), default 1
  IF i > Len(new) THEN <<items, used>>
  ELSE LET k == new[i][1]
           start == IF k \in DOMAIN used THEN used[k] ELSE 1
           hits == {j \in start..Len(items) : items[j][1] = k} IN
       IF hits # {} THEN
          LET j == CHOOSE x \in hits : \A y \in hits : x <= y IN
          UpdStep([items EXCEPT ![j] = new[i]], new, i + 1, [kk \in DOMAIN used \cup {k} |-> IF kk = k THEN j + 1 ELSE used[kk]])
       ELSE UpdStep(Append(items, new[i]), new, i + 1,
                    [kk \in DOMAIN used \cup {k} |-> IF kk = k THEN Len(items) + 2 ELSE used[kk]])
\* the loop as written: i indexes the list being shrunk
RECURSIVE DropTailsShifted(_, _, _)
DropTailsShifted(it, i, used) ==
  IF i > Len(it) THEN it
  ELSE IF it[i][1] \notin DOMAIN used THEN DropTailsShifted(it, i + 1, used)
  ELSE IF i >= used[it[i][1]] THEN DropTailsShifted(SubSeq(it, 1, i - 1) \o SubSeq(it, i + 1, Len(it)), i, used)
  ELSE DropTailsShifted(it, i + 1, used)
UpdatePairsSeqWith(dev, items, new) ==
  LET r == UpdStep(items, new, 1, << >>)
      it == r[1] used == r[2] IN
  IF dev THEN DropTailsShifted(it, 1, used)
  ELSE LET keep == {j \in 1..Len(it) : it[j][1] \notin DOMAIN used \/ j < used[it[j][1]]}
           idx == SelectSeq([j \in 1..Len(it) |-> j], LAMBDA j : j \in keep) IN
       [n \in 1..Len(idx) |-> it[idx[n]]]
UpdatePairsSeq(items, new) == UpdatePairsSeqWith(Dev_MultiDictUpdateIndexShift, items, new)

\* ------------------------------------------------------------ _encode_host
\* NOT_REG_NAME on the lower-cased ASCII host: a character outside a-z0-9-._~!$&'()*+,;=% or a '%' not
\* followed by two lower-case-or-digit hex characters
RECURSIVE RegNameOkFrom(_, _)
RegNameOkFrom(h, i) ==
  IF i > Len(h) THEN TRUE
  ELSE IF h[i] = PCT THEN i + 2 <= Len(h) /\ h[i + 1] \in HexLower /\ h[i + 2] \in HexLower /\ RegNameOkFrom(h, i + 1)
  ELSE h[i] \in (LowerAlpha \cup Digit \cup {45, 46, 95, 126} \cup SubDelims) /\ RegNameOkFrom(h, i + 1)
\* ip_address() is modelled by Host.tla (cross-checked against CPython in HostTables.tla); non-ASCII hosts go
\* through the idna package, which is outside the model: [gray |-> TRUE]
EncodeHost(host, validate) ==
  LET z == Partition(host, PCT)
      ipLooking == host # <<>> /\ (Last(host) \in Digit \/ Has(host, COLON))
      zoneTxt == IF z[2] THEN <<PCT>> \o z[3] ELSE <<>> IN
  IF ipLooking /\ IsIPv6(z[1]) THEN OK(<<LBR>> \o Compressed(ParseIPv6(z[1])) \o zoneTxt \o <<RBR>>)
  ELSE IF ipLooking /\ IsIPv4(z[1]) THEN OK(z[1] \o zoneTxt)
  ELSE IF IsAscii(host) THEN
       (LET low == LowerS(host) IN IF validate /\ ~RegNameOkFrom(low, 1) THEN EXC("ValueError") ELSE OK(low))
  ELSE [gray |-> TRUE]

\* --------------------------------------------------- _quoters.human_quote / URL.human_repr (component level)
\* `nonprintable`: the code points str.isprintable() rejects (environment data; a CONSTANT set in the models)
HumanQuote(s, unsafe, nonprintable) ==
  LET s1 == Flat([i \in 1..Len(s) |-> IF s[i] = PCT \/ s[i] \in unsafe THEN PctEnc(s[i]) ELSE <<s[i]>>]) IN
  IF \A i \in 1..Len(s1) : s1[i] \notin nonprintable THEN s1
  ELSE Flat([i \in 1..Len(s1) |-> IF s1[i] \in nonprintable THEN PctUtf8(s1[i]) ELSE <<s1[i]>>])
UserinfoUnsafe == {HASH, SLASH, COLON, QMARK, AT, LBR, RBR}
PathUnsafe     == {HASH, QMARK}
QueryUnsafe    == {HASH, AMP, PLUS, SEMI, EQ}
=============================================================================
