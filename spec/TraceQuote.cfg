INIT TInit
NEXT TNext
CONSTANT Prop = "ALL"
POSTCONDITION Accepted
CHECK_DEADLOCK FALSE
