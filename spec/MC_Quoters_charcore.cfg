INIT Init
NEXT Next
CONSTANT MaxLen = 4
CONSTANT Items <- CharCore
INVARIANT Inv_C01_Py
INVARIANT Inv_C01_C
INVARIANT Inv_C02
INVARIANT Inv_C03
INVARIANT Inv_C04
INVARIANT Inv_C05
INVARIANT Inv_C06_ReadBack
INVARIANT Inv_C06_Decode
CHECK_DEADLOCK FALSE
