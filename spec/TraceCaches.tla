----------------------------- MODULE TraceCaches -----------------------------
(***************************************************************************)
(* Trace specification for the host caches: TLC-generated behaviours of    *)
(* HostCaches.tla are executed on the real library (vlib/cachereplay.py),  *)
(* which records after EVERY call what cache_info() says.  The trace spec  *)
(* re-runs HostCaches' step operators with the OBSERVED outcomes (did the   *)
(* call return or raise) and compares its predicted cache_info() with the   *)
(* recorded one.  Where the library's outcome leaves something unlogged    *)
(* (did the nested _idna_encode return before the outer call raised?) the   *)
(* step is nondeterministic and TLC picks the candidate that explains the   *)
(* observation.                                                            *)
(*  - exact agreement of hits / misses / currsize / maxsize is MODEL        *)
(*    AGREEMENT (counted; a difference is drift of Level I, not a          *)
(*    violation: how often yarl consults its caches is not a contract);     *)
(*  - violations are only what cache_info() promises whatever the strategy: *)
(*    maxsize is the configured size, 0 <= currsize <= maxsize, counters    *)
(*    never decrease between clear / configure and are zero after them.     *)
(***************************************************************************)
EXTENDS HostCachesOps, Json, IOUtils, TLCExt
CONSTANT Prop
Recs == JsonDeserialize(IOEnv.TRACE_FILE)
VARIABLES l, cs, prevInfo
InfoOf(r, n) == r.info[n]
Matches(c, r) == \A n \in CacheNames : /\ InfoOf(r, n).maxsize = c[n].max /\ InfoOf(r, n).currsize = Len(c[n].keys)
                                      /\ InfoOf(r, n).hits = c[n].hits /\ InfoOf(r, n).misses = c[n].misses
SizesOf(r) == [n \in CacheNames |-> r.sizes[n]]
Candidates(c, r) ==
  CASE r.kind = "encode_host" ->
         IF NeedsIdna(r.h, r.flag) THEN {AfterEncodeHost(c, r.h, r.flag, io, r.ok) : io \in (IF r.ok THEN {TRUE} ELSE BOOLEAN)}
         ELSE {AfterEncodeHost(c, r.h, r.flag, TRUE, r.ok)}
    [] r.kind = "idna_encode" -> {AfterIdnaEncode(c, r.h, r.ok)}
    [] r.kind = "idna_decode" -> {AfterIdnaDecode(c, r.h, r.ok)}
    [] r.kind = "cache_clear" -> {AfterClear(c)}
    [] r.kind = "cache_configure" -> {AfterConfigure(SizesOf(r))}
    [] r.kind = "begin" -> {InitCaches}
Explaining(c, r) == {x \in Candidates(c, r) : Matches(x, r)}
\* after a step the model cannot explain: keep the predicted contents, adopt the observed counters and sizes
Resync(c, r) == LET x == CHOOSE y \in Candidates(c, r) : TRUE IN
                [n \in CacheNames |-> [x[n] EXCEPT !.hits = InfoOf(r, n).hits, !.misses = InfoOf(r, n).misses]]
Resets(r) == r.kind \in {"cache_clear", "cache_configure", "begin"}
Contract(r) ==
  (IF \E n \in CacheNames : InfoOf(r, n).maxsize # (IF Resets(r) /\ r.kind = "cache_configure" THEN r.sizes[n] ELSE IF r.kind = "begin" THEN DefaultSizes[n] ELSE prevInfo[n].maxsize)
   THEN {Prop \o ".cache_info.maxsize"} ELSE {})
  \cup (IF \E n \in CacheNames : InfoOf(r, n).currsize < 0 \/ (InfoOf(r, n).maxsize # Unbounded /\ InfoOf(r, n).currsize > InfoOf(r, n).maxsize)
        THEN {Prop \o ".cache_info.bounds"} ELSE {})
  \cup (IF Resets(r) THEN (IF \E n \in CacheNames : InfoOf(r, n).hits # 0 \/ InfoOf(r, n).misses # 0 \/ InfoOf(r, n).currsize # 0
                           THEN {Prop \o ".cache_info.reset"} ELSE {})
        ELSE (IF \E n \in CacheNames : InfoOf(r, n).hits < prevInfo[n].hits \/ InfoOf(r, n).misses < prevInfo[n].misses
              THEN {Prop \o ".cache_info.monotone"} ELSE {}))
  \cup (IF "crash" \in DOMAIN r THEN {Prop \o ".no_exception"} ELSE {})
\* Level I also predicts whether an ASCII / IP host is accepted (agreement, counted with the rest)
OutcomeAgrees(r) == (r.kind = "encode_host" /\ ~NeedsIdna(r.h, r.flag)) => (r.ok = IsOK(EncodeHost(r.h, r.flag)))

TInit == l = 1 /\ cs = InitCaches /\ prevInfo = [n \in CacheNames |-> [maxsize |-> DefaultSizes[n], currsize |-> 0, hits |-> 0, misses |-> 0]]
         /\ TLCSet(1, [n |-> 0, modelled |-> 0, agree |-> 0])
TNext ==
  /\ l <= Len(Recs)
  /\ LET r == Recs[l] ex == Explaining(cs, r) f == Contract(r) ag == (ex # {} /\ OutcomeAgrees(r)) IN
     /\ IF f = {} THEN TRUE ELSE PrintT(<<"VERDICT", r.id, f, {}>>)
     /\ IF ag THEN TRUE ELSE PrintT(<<"DRIFT", r.id>>)
     /\ TLCSet(1, [n |-> TLCGet(1).n + 1, modelled |-> TLCGet(1).modelled + 1, agree |-> TLCGet(1).agree + (IF ag THEN 1 ELSE 0)])
     /\ cs' = IF ex # {} THEN CHOOSE x \in ex : TRUE ELSE Resync(cs, r)
     /\ prevInfo' = [n \in CacheNames |-> InfoOf(r, n)]
  /\ l' = l + 1
Accepted == /\ PrintT(<<"STATS", TLCGet(1)>>)
            /\ TLCGet("stats").diameter - 1 = Len(Recs)
=============================================================================
