---------------------------- MODULE QuoteClauses ----------------------------
(***************************************************************************)
(* The Level A clauses of C01/C02/C03/C04/C05/C06 at the level of a single *)
(* quoter / unquoter call, phrased over (configuration name, input,        *)
(* output).  Used both by the bounded model (MC_Quoters: output computed   *)
(* by Level I) and by the trace specification (TraceQuote: output observed *)
(* on the real code).                                                      *)
(***************************************************************************)
EXTENDS ContractQuoting, ImplQuote

KindOf(n) ==
  CASE n \in {"QUOTER", "REQUOTER"} -> "user"
    [] n \in {"PATH_QUOTER", "PATH_REQUOTER"} -> "path"
    [] n \in {"QUERY_QUOTER", "QUERY_REQUOTER"} -> "query"
    [] n = "QUERY_PART_QUOTER" -> "qpart"
    [] n \in {"FRAGMENT_QUOTER", "FRAGMENT_REQUOTER"} -> "fragment"
IsRequoter(n) == n \in {"REQUOTER", "PATH_REQUOTER", "QUERY_REQUOTER", "FRAGMENT_REQUOTER"}

\* C01: output well-formed for the component
QC_WellFormed(n, out) == WellFormed(ComponentOf(KindOf(n)), out)
\* C02: meaning kept (the statement speaks of UTF-8 decodable text: lone surrogates excluded)
QC_SameMeaning(n, in, out) == HasSurrogate(in) \/ SameMeaning(KindOf(n), IsRequoter(n), in, out)
\* C03: a second pass of a requoter changes nothing
QC_Idempotent(n, out, out2) == IsRequoter(n) => out2 = out
\* C04: canonical text is left untouched by the requoter
QC_CanonicalIn(n, in) == IsRequoter(n) /\ CanonicalText(ComponentOf(KindOf(n)), in)
QC_CanonicalKept(n, in, out) == QC_CanonicalIn(n, in) => out = in

\* C06 at unquoter level: the decoded view the configuration stands for
UC_IsDecode(n, in, out) ==
  CASE n = "UNQUOTER"           -> out = DecodePlain(in)
    [] n = "PATH_UNQUOTER"      -> out = DecodePlain(in)
    [] n = "PATH_SAFE_UNQUOTER" -> IsDecodePathSafe(in, out)
    [] n = "QS_UNQUOTER"        -> IsDecodeQueryString(in, out)

\* C06 read-back at quoter level: decoding what the non-requoting quoter wrote gives the text back
ReadBackApplies(n, in) == ~IsRequoter(n) /\ ~HasSurrogate(in) /\ n # "QUERY_QUOTER"
QC_ReadBack(n, in, out) ==
  ReadBackApplies(n, in) => (IF n = "QUERY_PART_QUOTER" THEN DecodeQs(out) ELSE DecodePlain(out)) = in
=============================================================================
