------------------------------- MODULE MC_Join -------------------------------
(***************************************************************************)
(* R1 for C14: bases x references built from small component sets; the     *)
(* implementation-shaped ImplUrl!Join must equal RFC 3986 5.2.2 Transform  *)
(* (non-strict) wherever the property applies; the known deviation region  *)
(* (base without authority and without a rooted path) is excluded and must *)
(* produce a counterexample in the negative configuration.                 *)
(***************************************************************************)
EXTENDS ContractUrl, ImplUrl, Rfc3986Tables, TLC

S_(str) == str
Schemes == { <<>>, <<104,116,116,112>>, <<102,105,108,101>>, <<109,97,105,108,116,111>>, <<120>> }     \* "", http, file, mailto, x
Netlocs == { <<>>, <<97>>, <<104>> }                                                                  \* "", a, h
BasePaths == { <<>>, <<47>>, <<47,98,47,99,47,100,59,112>>, <<47,98,47,99,47>>, <<47,98,37,50,70,99,47,100,37,50,48,101,47,102>>,
               <<98,47,99>>, <<47,98>> }         \* "", /, /b/c/d;p, /b/c/, /b%2Fc/d%20e/f, b/c, /b
RefPaths == { <<>>, <<103>>, <<46,47,103>>, <<103,47>>, <<47,103>>, <<46,46>>, <<46,46,47,46,46>>, <<46,46,47,46,46,47,46,46,47,103>>,
              <<47,46,47,103>>, <<103,47,46,46,47,104>>, <<46>>, <<46,46,47,103>>, <<103,47,47,46>>, <<46,47>> }
Queries == { <<>>, <<113>> }
Frags == { <<>>, <<102>> }

VARIABLES b, r
Init == /\ b \in { Url(sc, nl, p, q, f) : sc \in Schemes, nl \in Netlocs, p \in BasePaths, q \in Queries, f \in Frags }
        /\ r \in { Url(sc, nl, p, q, f) : sc \in {<<>>, <<104,116,116,112>>, <<120>>}, nl \in {<<>>, <<104>>}, p \in RefPaths, q \in Queries, f \in Frags }
Next == UNCHANGED <<b, r>>

ObsOf(u) == [val |-> [ok |-> <<u.scheme, u.netloc, u.path, u.query, u.fragment>>]]
\* only value shapes auto-encoding produces: with an authority the path is empty or rooted and normalised
WellShaped(u) == u.netloc = <<>> \/ u.path = <<>> \/ (u.path[1] = SLASH /\ ~HasDotSeg(u.path))
J == Join(b, r)
DevRegion == b.netloc = <<>> /\ (b.path = <<>> \/ b.path[1] # SLASH)
Inv_C14 ==
  (WellShaped(b) /\ WellShaped(r)) =>
    IF C14_RefUnchangedCase(ObsOf(b), ObsOf(r), UsesRelative) THEN J = r
    ELSE (C14_Judged(ObsOf(b)) /\ ~DevRegion) => C14_IsTransform(ObsOf(b), ObsOf(r), ObsOf(J))
Inv_C14_NoExclusion ==
  (WellShaped(b) /\ WellShaped(r)) =>
    IF C14_RefUnchangedCase(ObsOf(b), ObsOf(r), UsesRelative) THEN J = r
    ELSE C14_Judged(ObsOf(b)) => C14_IsTransform(ObsOf(b), ObsOf(r), ObsOf(J))
\* with an authority the joined path has no dot segments (C15 through join)
Inv_C15_Join == (WellShaped(b) /\ WellShaped(r) /\ J.netloc # <<>> /\ r.path # <<>> /\ r.netloc = <<>>) => ~HasDotSeg(J.path)
=============================================================================
