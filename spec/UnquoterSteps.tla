--------------------------- MODULE UnquoterSteps ---------------------------
(***************************************************************************)
(* LEVEL I step machines of the two unquoters, one action per loop         *)
(* iteration (its branches are the IF arms), run side by side on the same  *)
(* input for the four configurations of _quoters.py.                       *)
(*                                                                         *)
(* Pure Python (_quoting_py._Unquoter.__call__): a code-point loop that    *)
(* feeds the byte of every well-formed escape to an INCREMENTAL UTF-8      *)
(* decoder; the decoder's buffer is the pending, so far incomplete         *)
(* sequence.  On a decoding error the raw text of the pending escapes      *)
(*     val[idx - 3 - len(buffer)*3 : idx - 3]                              *)
(* is flushed verbatim and the byte is retried alone; any other character  *)
(* first flushes val[idx - 1 - len(buffer)*3 : idx - 1]; at the end        *)
(* val[-len(buffer)*3:] is appended.                                       *)
(* Compiled (_quoting_c._Unquoter._do_unquote): the same loop over a       *)
(* 4-byte C array `buffer`/`buflen` (assert buflen < 4 before each store), *)
(* PyUnicode_DecodeUTF8Stateful, the flush positions computed from buflen  *)
(* AFTER the store, and a `changed` flag that lets it return the input.    *)
(*                                                                         *)
(* Checked at every loop head, for both machines:                          *)
(*   Inv_*Progress   ret \o UnqFrom(cfg, s, idx, pending) = Unquote(cfg,s) *)
(*                   (the loop invariant that ties the machine to the      *)
(*                   closed form of ImplQuote, hence at termination        *)
(*                   Inv_*Closed)                                          *)
(*   Inv_*Pending    the pending bytes are exactly the bytes of the        *)
(*                   3*len escapes that precede idx, they form a proper    *)
(*                   PREFIX of a UTF-8 sequence, and there are at most 3   *)
(*                   of them (the C array cannot overflow; every slice     *)
(*                   position is inside the input)                         *)
(*   Inv_Same        joint termination with equal results (C05)            *)
(*   Inv_Decode      for the plain UNQUOTER the result is the Level A      *)
(*                   decoding (ContractQuoting!DecodePlain) -- C06         *)
(* Negative configuration: the flush slice one escape short.               *)
(***************************************************************************)
EXTENDS ContractQuoting, ImplQuote, TLC
CONSTANTS MaxItems, Tokens
FlushShort == 0          \* negative configuration: FlushShort <- One
One == 1
\* valid / over-long / truncated / surrogate / too-large escape runs, malformed escapes, literals
UnqTokens == { <<37,50,70>>, <<37,50,102>>, <<37,50,66>>, <<37,50,53>>, <<37,52,49>>, <<37,50,48>>, <<37,67,51>>,
               <<37,65,57>>, <<37,69,50>>, <<37,56,50>>, <<37,65,67>>, <<37,70,48>>, <<37,57,70>>, <<37,57,56>>,
               <<37,56,48>>, <<37,70,70>>, <<37,67,48>>, <<37,69,68>>, <<37,65,48>>, <<37,69,48>>, <<37,70,52>>,
               <<37,57,48>>, <<37>>, <<37,52>>, <<37,71,49>>, <<97>>, <<43>>, <<47>>, <<32>>, <<233>>,
               <<37,50,54>>, <<37,51,100>> }
SmallTokens == { <<37,50,70>>, <<37,52,49>>, <<37,67,51>>, <<37,65,57>>, <<37,69,50>>, <<37,56,50>>, <<37,65,67>>, <<37,70,48>>,
                 <<37,57,70>>, <<37,70,70>>, <<37,69,68>>, <<37,65,48>>, <<37>>, <<37,52>>, <<97>>, <<43>>, <<47>>, <<233>>, <<37,50,66>> }

VARIABLES phase,   \* "build" | "run" | "done"
          s, items, name,
          pidx, pbuf, pret, pdone,            \* python machine: next position (1-based), decoder.buffer, ret, finished
          cidx, cbuf, cret, cchanged, cdone   \* compiled machine: idx, buffer[0..buflen), ret, changed, finished
vars == <<phase, s, items, name, pidx, pbuf, pret, pdone, cidx, cbuf, cret, cchanged, cdone>>
ucfg == UnquoterCfg(name)

Init == /\ phase = "build" /\ s = <<>> /\ items = 0 /\ name \in UnquoterNames
        /\ pidx = 1 /\ pbuf = <<>> /\ pret = <<>> /\ pdone = FALSE
        /\ cidx = 1 /\ cbuf = <<>> /\ cret = <<>> /\ cchanged = FALSE /\ cdone = FALSE
Grow == /\ phase = "build" /\ items < MaxItems /\ \E t \in Tokens : s' = s \o t
        /\ items' = items + 1
        /\ UNCHANGED <<phase, name, pidx, pbuf, pret, pdone, cidx, cbuf, cret, cchanged, cdone>>
Begin == /\ phase = "build" /\ phase' = "run"
         /\ UNCHANGED <<s, items, name, pidx, pbuf, pret, pdone, cidx, cbuf, cret, cchanged, cdone>>

\* the raw text of n pending escapes that end just before position e (exclusive)
Raw(n, e) == Sub(s, e - 3 * n, e - 1)
PlainOut(ch) == IF ch = PLUS THEN (IF ~ucfg.qs \/ PLUS \in ucfg.unsafe THEN <<PLUS>> ELSE <<SPACE>>)
                ELSE IF ch \in ucfg.unsafe THEN <<PCT>> \o (IF ch < 16 THEN <<HexDigit(ch)>> ELSE <<HexDigit(ch \div 16), HexDigit(ch % 16)>>)
                ELSE <<ch>>

\* ------------------------------------------------------------------ python machine: one loop iteration
PyIter ==
  /\ phase = "run" /\ ~pdone /\ pidx <= Len(s)
  /\ IF IsPctAt(s, pidx)                   \* ch == "%" and idx <= len(val) - 2 and _IS_HEX_STR.fullmatch(pct)
     THEN LET b == PctByte(s, pidx) nxt == pidx + 3
              st1 == Utf8Status(pbuf \o <<b>>) IN
          /\ pidx' = nxt
          /\ IF st1 = "complete" THEN /\ pret' = pret \o Emit(ucfg, Utf8Scalar(pbuf \o <<b>>, Len(pbuf) + 1)) /\ pbuf' = <<>>
             ELSE IF st1 = "partial" THEN /\ pret' = pret /\ pbuf' = pbuf \o <<b>>          \* unquoted == "": continue
             ELSE \* UnicodeDecodeError: start_pct = idx - 3 - len(buffer)*3; ret.append(val[start_pct : idx - 3]); reset; retry
                  LET flushed == Raw(Len(pbuf) - (IF pbuf # <<>> THEN FlushShort ELSE 0), nxt - 3)
                      st2 == Utf8Status(<<b>>) IN
                  IF st2 = "complete" THEN /\ pret' = pret \o flushed \o Emit(ucfg, b) /\ pbuf' = <<>>
                  ELSE IF st2 = "partial" THEN /\ pret' = pret \o flushed /\ pbuf' = <<b>>
                  ELSE /\ pret' = pret \o flushed \o Sub(s, nxt - 3, nxt - 1) /\ pbuf' = <<>>
     ELSE \* any other character (a '%' that starts no escape included): flush val[idx-1-len(buffer)*3 : idx-1] first
          /\ pidx' = pidx + 1 /\ pbuf' = <<>>
          /\ pret' = pret \o Raw(Len(pbuf), pidx) \o PlainOut(s[pidx])
  /\ pdone' = FALSE
  /\ UNCHANGED <<phase, s, items, name, cidx, cbuf, cret, cchanged, cdone>>
PyFinish ==
  /\ phase = "run" /\ ~pdone /\ pidx > Len(s)
  /\ pret' = pret \o Raw(Len(pbuf), Len(s) + 1)            \* val[-len(decoder.buffer) * 3:]
  /\ pbuf' = <<>> /\ pdone' = TRUE
  /\ UNCHANGED <<phase, s, items, name, pidx, cidx, cbuf, cret, cchanged, cdone>>

\* ------------------------------------------------------------------ compiled machine
\* (the two machines share nothing: the compiled one is run after the Python one, which keeps the state graph a sum, not a product)
CIter ==
  /\ phase = "run" /\ pdone /\ ~cdone /\ cidx <= Len(s)
  /\ IF s[cidx] = PCT /\ cidx + 2 <= Len(s)                \* ch == '%' and idx <= length - 2: changed = 1
     THEN IF IsPctAt(s, cidx)                              \* _restore_ch(...) != -1
          THEN LET b == PctByte(s, cidx) nxt == cidx + 3
                   nb == cbuf \o <<b>>                     \* buffer[buflen] = ch; buflen += 1
                   st1 == Utf8Status(nb) IN
               /\ cidx' = nxt /\ cchanged' = TRUE
               /\ IF st1 = "complete" THEN /\ cret' = cret \o Emit(ucfg, Utf8Scalar(nb, Len(nb))) /\ cbuf' = <<>>
                  ELSE IF st1 = "partial" THEN /\ cret' = cret /\ cbuf' = nb
                  ELSE \* start_pct = idx - buflen*3 (buflen counts the new byte); ret.append(val[start_pct : idx - 3])
                       LET flushed == Sub(s, nxt - 3 * Len(nb), nxt - 4)
                           st2 == Utf8Status(<<b>>) IN
                       IF st2 = "complete" THEN /\ cret' = cret \o flushed \o Emit(ucfg, b) /\ cbuf' = <<>>
                       ELSE IF st2 = "partial" THEN /\ cret' = cret \o flushed /\ cbuf' = <<b>>
                       ELSE /\ cret' = cret \o flushed \o Sub(s, nxt - 3, nxt - 1) /\ cbuf' = <<>>
          ELSE \* ch = '%' again: the plain branch, with changed already set
               /\ cidx' = cidx + 1 /\ cbuf' = <<>> /\ cchanged' = TRUE
               /\ cret' = cret \o Raw(Len(cbuf), cidx) \o PlainOut(PCT)
     ELSE /\ cidx' = cidx + 1 /\ cbuf' = <<>>
          /\ cret' = cret \o Raw(Len(cbuf), cidx) \o PlainOut(s[cidx])
          /\ cchanged' = (cchanged \/ PlainOut(s[cidx]) # <<s[cidx]>>)
  /\ cdone' = FALSE
  /\ UNCHANGED <<phase, s, items, name, pidx, pbuf, pret, pdone>>
CFinish ==
  /\ phase = "run" /\ pdone /\ ~cdone /\ cidx > Len(s)
  /\ cret' = (IF ~cchanged THEN s ELSE cret \o Raw(Len(cbuf), Len(s) + 1))     \* if not changed: return val
  /\ cbuf' = <<>> /\ cdone' = TRUE
  /\ UNCHANGED <<phase, s, items, name, cidx, cchanged, pidx, pbuf, pret, pdone>>
Finish == /\ phase = "run" /\ pdone /\ cdone /\ phase' = "done"
          /\ UNCHANGED <<s, items, name, pidx, pbuf, pret, pdone, cidx, cbuf, cret, cchanged, cdone>>

Next == Grow \/ Begin \/ PyIter \/ PyFinish \/ CIter \/ CFinish \/ Finish
Spec == Init /\ [][Next]_vars

\* ------------------------------------------------------------------ invariants
Pending(buf, idx) ==
  /\ Len(buf) <= 3 /\ 3 * Len(buf) <= idx - 1
  /\ \A k \in 1..Len(buf) : LET p == idx - 3 * (Len(buf) - k + 1) IN IsPctAt(s, p) /\ PctByte(s, p) = buf[k]
  /\ (buf # <<>> => Utf8Status(buf) = "partial")
Inv_PyPending == (phase = "run" /\ ~pdone) => (pidx >= 1 /\ pidx <= Len(s) + 1 /\ Pending(pbuf, pidx))
Inv_CPending  == (phase = "run" /\ ~cdone) => (cidx >= 1 /\ cidx <= Len(s) + 1 /\ Pending(cbuf, cidx))
Inv_PyProgress == (phase = "run" /\ ~pdone) => pret \o UnqFrom(ucfg, s, pidx, pbuf) = Unquote(ucfg, s)
Inv_CProgress  == (phase = "run" /\ ~cdone /\ cchanged) => cret \o UnqFrom(ucfg, s, cidx, cbuf) = Unquote(ucfg, s)
\* while the compiled machine has not seen anything to change, what it has copied is the input so far
Inv_CUnchangedPrefix == (phase = "run" /\ ~cdone /\ ~cchanged) => (cret = Sub(s, 1, cidx - 1) /\ cbuf = <<>>)
Inv_PyClosed == pdone => pret = Unquote(ucfg, s)
Inv_CClosed  == cdone => cret = Unquote(ucfg, s)
Inv_Same     == phase = "done" => pret = cret
Inv_Decode   == (phase = "done" /\ name = "UNQUOTER") => pret = DecodePlain(s)
=============================================================================
