------------------------------- MODULE Text -------------------------------
(***************************************************************************)
(* Text = Seq(Nat): a sequence of Unicode code points.  Character classes  *)
(* of RFC 3986, ASCII case folding, hex <-> byte, UTF-8 (Unicode Table     *)
(* 3-7), and the usual string helpers (find / partition / split / join).   *)
(* Everything here is alphabet independent; nothing mentions yarl.         *)
(***************************************************************************)
EXTENDS Naturals, Sequences, FiniteSets

\* ---------------------------------------------------------------- classes
UpperAlpha == 65..90
LowerAlpha == 97..122
Alpha      == UpperAlpha \cup LowerAlpha
Digit      == 48..57
HexUpper   == Digit \cup (65..70)
HexLower   == Digit \cup (97..102)
HexDig     == Digit \cup (65..70) \cup (97..102)
Unreserved == Alpha \cup Digit \cup {45, 46, 95, 126}             \* - . _ ~
SubDelims  == {33, 36, 38, 39, 40, 41, 42, 43, 44, 59, 61}        \* ! $ & ' ( ) * + , ; =
GenDelims  == {58, 47, 63, 35, 91, 93, 64}                        \* : / ? # [ ] @
PChar      == Unreserved \cup SubDelims \cup {58, 64}             \* + pct-encoded, handled apart
SchemeChars == Alpha \cup Digit \cup {43, 45, 46}                 \* + - .
PCT   == 37
SLASH == 47
COLON == 58
QMARK == 63
HASH  == 35
AT    == 64
LBR   == 91
RBR   == 93
PLUS  == 43
SPACE == 32
DOT   == 46
AMP   == 38
EQ    == 61
SEMI  == 59

IsSurrogate(c) == c \in 55296..57343
IsAscii(s) == \A i \in 1..Len(s) : s[i] < 128

Lower(c)  == IF c \in UpperAlpha THEN c + 32 ELSE c
Upper(c)  == IF c \in LowerAlpha THEN c - 32 ELSE c
LowerS(s) == [i \in 1..Len(s) |-> Lower(s[i])]
UpperS(s) == [i \in 1..Len(s) |-> Upper(s[i])]

HexVal(c)   == IF c \in Digit THEN c - 48 ELSE IF c \in 65..70 THEN c - 55 ELSE c - 87
HexDigit(v) == IF v < 10 THEN 48 + v ELSE 55 + v                  \* upper case
PctEnc(b)   == <<PCT, HexDigit(b \div 16), HexDigit(b % 16)>>

\* ---------------------------------------------------------------- slicing
Sub(s, a, b) == IF a > b THEN <<>> ELSE SubSeq(s, a, b)
From(s, a)   == Sub(s, a, Len(s))
Upto(s, b)   == Sub(s, 1, b)

RECURSIVE FindIn(_, _, _)
\* index (>= p) of the first element of s that lies in set D, 0 if none
FindIn(s, p, D) == IF p > Len(s) THEN 0 ELSE IF s[p] \in D THEN p ELSE FindIn(s, p + 1, D)
Find(s, c)      == FindIn(s, 1, {c})
RECURSIVE RFindFrom(_, _, _)
RFindFrom(s, p, c) == IF p < 1 THEN 0 ELSE IF s[p] = c THEN p ELSE RFindFrom(s, p - 1, c)
RFind(s, c)     == RFindFrom(s, Len(s), c)
Has(s, c)       == \E i \in 1..Len(s) : s[i] = c
HasAny(s, D)    == \E i \in 1..Len(s) : s[i] \in D
Remove(s, D)    == SelectSeq(s, LAMBDA c : c \notin D)
StartsWith(s, p) == Len(p) <= Len(s) /\ Upto(s, Len(p)) = p
EndsWith(s, p)   == Len(p) <= Len(s) /\ From(s, Len(s) - Len(p) + 1) = p

\* python str.partition / rpartition on one character: <<before, found?, after>>
Partition(s, c) == LET i == Find(s, c) IN
   IF i = 0 THEN <<s, FALSE, <<>>>> ELSE <<Upto(s, i - 1), TRUE, From(s, i + 1)>>
RPartition(s, c) == LET i == RFind(s, c) IN
   IF i = 0 THEN <<<<>>, FALSE, s>> ELSE <<Upto(s, i - 1), TRUE, From(s, i + 1)>>

RECURSIVE SplitFrom(_, _, _)
SplitFrom(s, p, c) == LET i == FindIn(s, p, {c}) IN
   IF i = 0 THEN <<From(s, p)>> ELSE <<Sub(s, p, i - 1)>> \o SplitFrom(s, i + 1, c)
\* python s.split(c): always at least one element
Split(s, c) == SplitFrom(s, 1, c)

RECURSIVE Flat(_)
Flat(ss) == IF ss = <<>> THEN <<>> ELSE Head(ss) \o Flat(Tail(ss))
RECURSIVE JoinWith(_, _)
\* python c.join(ss)
JoinWith(ss, c) == IF ss = <<>> THEN <<>>
                   ELSE IF Len(ss) = 1 THEN ss[1]
                   ELSE ss[1] \o <<c>> \o JoinWith(Tail(ss), c)
Last(s) == s[Len(s)]
Front(s) == Upto(s, Len(s) - 1)
Range(s) == {s[i] : i \in 1..Len(s)}
Min2(a, b) == IF a < b THEN a ELSE b
Max2(a, b) == IF a > b THEN a ELSE b

RECURSIVE LStripSet(_, _)
LStripSet(s, D) == IF s # <<>> /\ s[1] \in D THEN LStripSet(Tail(s), D) ELSE s
RECURSIVE RStripSet(_, _)
RStripSet(s, D) == IF s # <<>> /\ Last(s) \in D THEN RStripSet(Front(s), D) ELSE s

\* ---------------------------------------------------------------- escapes
IsPctAt(s, i)      == i + 2 <= Len(s) /\ s[i] = PCT /\ s[i + 1] \in HexDig /\ s[i + 2] \in HexDig
IsUpperPctAt(s, i) == i + 2 <= Len(s) /\ s[i] = PCT /\ s[i + 1] \in HexUpper /\ s[i + 2] \in HexUpper
PctByte(s, i)      == HexVal(s[i + 1]) * 16 + HexVal(s[i + 2])

\* ------------------------------------------------------------------ UTF-8
\* scalar value -> bytes; surrogates (not scalar values) have no encoding
Utf8(c) == IF c < 128 THEN <<c>>
   ELSE IF c < 2048 THEN <<192 + (c \div 64), 128 + (c % 64)>>
   ELSE IF IsSurrogate(c) THEN <<>>
   ELSE IF c < 65536 THEN <<224 + (c \div 4096), 128 + ((c \div 64) % 64), 128 + (c % 64)>>
   ELSE <<240 + (c \div 262144), 128 + ((c \div 4096) % 64), 128 + ((c \div 64) % 64), 128 + (c % 64)>>
Utf8S(s) == Flat([i \in 1..Len(s) |-> Utf8(s[i])])

Cont(b, lo, hi) == b >= lo /\ b <= hi
\* length of the well-formed UTF-8 sequence that starts bs (Unicode 15 Table 3-7), 0 if there is none
Utf8Len(bs) ==
  IF bs = <<>> THEN 0 ELSE
  LET b0 == bs[1] n == Len(bs) IN
  IF b0 < 128 THEN 1
  ELSE IF b0 \in 194..223 THEN (IF n >= 2 /\ Cont(bs[2], 128, 191) THEN 2 ELSE 0)
  ELSE IF b0 = 224 THEN (IF n >= 3 /\ Cont(bs[2], 160, 191) /\ Cont(bs[3], 128, 191) THEN 3 ELSE 0)
  ELSE IF b0 \in (225..236) \cup (238..239)
       THEN (IF n >= 3 /\ Cont(bs[2], 128, 191) /\ Cont(bs[3], 128, 191) THEN 3 ELSE 0)
  ELSE IF b0 = 237 THEN (IF n >= 3 /\ Cont(bs[2], 128, 159) /\ Cont(bs[3], 128, 191) THEN 3 ELSE 0)
  ELSE IF b0 = 240
       THEN (IF n >= 4 /\ Cont(bs[2], 144, 191) /\ Cont(bs[3], 128, 191) /\ Cont(bs[4], 128, 191) THEN 4 ELSE 0)
  ELSE IF b0 \in 241..243
       THEN (IF n >= 4 /\ Cont(bs[2], 128, 191) /\ Cont(bs[3], 128, 191) /\ Cont(bs[4], 128, 191) THEN 4 ELSE 0)
  ELSE IF b0 = 244
       THEN (IF n >= 4 /\ Cont(bs[2], 128, 143) /\ Cont(bs[3], 128, 191) /\ Cont(bs[4], 128, 191) THEN 4 ELSE 0)
  ELSE 0
\* scalar value of a well-formed sequence of length Utf8Len(bs)
Utf8Scalar(bs, n) ==
  IF n = 1 THEN bs[1]
  ELSE IF n = 2 THEN (bs[1] - 192) * 64 + (bs[2] - 128)
  ELSE IF n = 3 THEN (bs[1] - 224) * 4096 + (bs[2] - 128) * 64 + (bs[3] - 128)
  ELSE (bs[1] - 240) * 262144 + (bs[2] - 128) * 4096 + (bs[3] - 128) * 64 + (bs[4] - 128)

\* ------------------------------------------------------------ numbers
RECURSIVE DigitsVal(_)
\* value of a sequence of ASCII digits (caller guarantees few enough digits for 32-bit TLC ints)
DigitsVal(s) == IF s = <<>> THEN 0 ELSE DigitsVal(Front(s)) * 10 + (Last(s) - 48)
AllDigits(s) == s # <<>> /\ \A i \in 1..Len(s) : s[i] \in Digit
RECURSIVE NatText(_)
NatText(n) == IF n < 10 THEN <<48 + n>> ELSE NatText(n \div 10) \o <<48 + (n % 10)>>
=============================================================================
