------------------------------- MODULE MC_Dots -------------------------------
(***************************************************************************)
(* R1 for C15: a state is a sequence of path segments built from Segs.     *)
(* Invariants: yarl's stack machine (ImplUrl!NormalizePath, i.e.           *)
(* _path.py:normalize_path_segments) equals the literal RFC 3986 5.2.4     *)
(* buffer algorithm on every rooted path; it is idempotent; nothing '.' or *)
(* '..' is left; a trailing slash appears iff the last segment was a dot   *)
(* segment (or empty).                                                     *)
(***************************************************************************)
EXTENDS ContractUrl, ImplUrl, TLC
CONSTANT MaxLen

\* . .. (empty) a .a a. ..a ... a.b
Segs == { <<46>>, <<46, 46>>, <<>>, <<97>>, <<46, 97>>, <<97, 46>>, <<46, 46, 97>>, <<46, 46, 46>>, <<97, 46, 98>> }

VARIABLE segs
Init == segs = <<>>
Next == \E sg \in Segs : Len(segs) < MaxLen /\ segs' = Append(segs, sg)

Rootedp == <<SLASH>> \o JoinWith(segs, SLASH)
Inv_IsRfc524 == NormalizePath(Rootedp) = RemoveDotSegments(Rootedp)
Inv_Idempotent == NormalizePath(NormalizePath(Rootedp)) = NormalizePath(Rootedp)
Inv_NoDotLeft == ~HasDotSeg(NormalizePath(Rootedp))
Inv_Rooted == LET n == NormalizePath(Rootedp) IN n # <<>> /\ n[1] = SLASH
Inv_TrailingSlash ==
  (segs # <<>> /\ Last(segs) \in {<<DOT>>, <<DOT, DOT>>}) => Last(NormalizePath(Rootedp)) = SLASH
\* the segment-list form used by the C15 trace clauses agrees with the text form
Inv_SegsForm == <<SLASH>> \o JoinWith(RdsSegs(segs), SLASH) = RemoveDotSegments(Rootedp) \/ segs = <<>>
=============================================================================
