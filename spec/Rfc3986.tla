------------------------------ MODULE Rfc3986 ------------------------------
(***************************************************************************)
(* LEVEL A -- a transcription of the parts of RFC 3986 the properties      *)
(* cite.  Nothing here is derived from yarl's code.                        *)
(*   AppendixB(s)          the five-group decomposition of Appendix B      *)
(*   StripWhatwg(s)        leading C0/space stripped, TAB/CR/LF removed    *)
(*   SplitAuthority(a)     section 3.2: last '@', first ':' of userinfo,   *)
(*                         ':' after the host or the closing ']'           *)
(*   RemoveDotSegments(p)  section 5.2.4, the buffer algorithm, literally  *)
(*   Merge / Transform     sections 5.2.3 / 5.2.2                          *)
(*   Recompose             section 5.3                                     *)
(* Rfc3986Tables.tla replays the RFC's own example tables (5.4.1, 5.4.2,   *)
(* Appendix B) against these operators as ASSUMEs, so the oracle is itself *)
(* checked by TLC whenever a model that extends it is loaded.              *)
(***************************************************************************)
EXTENDS Text

\* ------------------------------------------------------------ Appendix B
\*  ^(([^:/?#]+):)?(//([^/?#]*))?([^?#]*)(\?([^#]*))?(#(.*))?
\* `schemeOk(t)` decides whether the candidate scheme group t is recognised (grammar of 3.1)
SchemeGrammar(t) == t # <<>> /\ t[1] \in Alpha /\ \A i \in 1..Len(t) : t[i] \in SchemeChars
\* candidate that consists of scheme characters but does not start with a letter: the regular
\* expression of Appendix B takes it, the grammar of 3.1 does not
SchemeGray(t)    == t # <<>> /\ t[1] \notin Alpha /\ \A i \in 1..Len(t) : t[i] \in SchemeChars

AppendixBWith(s, takeGray) ==
  LET d == FindIn(s, 1, {COLON, SLASH, QMARK, HASH})
      cand == IF d > 1 /\ s[d] = COLON THEN Upto(s, d - 1) ELSE <<>>
      hasScheme == cand # <<>> /\ (SchemeGrammar(cand) \/ (takeGray /\ SchemeGray(cand)))
      scheme == IF hasScheme THEN cand ELSE <<>>
      r1 == IF hasScheme THEN From(s, d + 1) ELSE s
      hasAuth == Len(r1) >= 2 /\ r1[1] = SLASH /\ r1[2] = SLASH
      e == IF hasAuth THEN FindIn(r1, 3, {SLASH, QMARK, HASH}) ELSE 0
      auth == IF ~hasAuth THEN <<>> ELSE IF e = 0 THEN From(r1, 3) ELSE Sub(r1, 3, e - 1)
      r2 == IF ~hasAuth THEN r1 ELSE IF e = 0 THEN <<>> ELSE From(r1, e)
      h == Find(r2, HASH)
      frag == IF h = 0 THEN <<>> ELSE From(r2, h + 1)
      r3 == IF h = 0 THEN r2 ELSE Upto(r2, h - 1)
      q == Find(r3, QMARK)
      query == IF q = 0 THEN <<>> ELSE From(r3, q + 1)
      path == IF q = 0 THEN r3 ELSE Upto(r3, q - 1)
  IN [scheme |-> scheme, hasAuth |-> hasAuth, authority |-> auth, path |-> path, query |-> query,
      fragment |-> frag]
AppendixB(s) == AppendixBWith(s, FALSE)

\* WHATWG pre-processing named by C07: leading C0 control or space stripped; TAB, LF, CR removed
StripWhatwg(s) == Remove(LStripSet(s, 0..32), {9, 10, 13})

\* ------------------------------------------------------------ 3.2 authority
\* authority = [ userinfo "@" ] host [ ":" port ];  userinfo = user [ ":" password ]
\* hasUser / hasPassword / hasPort say whether the delimiter was present
SplitAuthority(a) ==
  LET at == RFind(a, AT)
      userinfo == IF at = 0 THEN <<>> ELSE Upto(a, at - 1)
      hostport == IF at = 0 THEN a ELSE From(a, at + 1)
      uc == Find(userinfo, COLON)
      user == IF uc = 0 THEN userinfo ELSE Upto(userinfo, uc - 1)
      password == IF uc = 0 THEN <<>> ELSE From(userinfo, uc + 1)
      lb == Find(hostport, LBR)
      rb == IF lb = 0 THEN 0 ELSE FindIn(hostport, lb + 1, {RBR})
      bracketed == lb > 0 /\ rb > 0
      pc == IF bracketed THEN FindIn(hostport, rb + 1, {COLON}) ELSE Find(hostport, COLON)
      host == IF bracketed THEN Sub(hostport, lb + 1, rb - 1)
              ELSE IF pc = 0 THEN hostport ELSE Upto(hostport, pc - 1)
      port == IF pc = 0 THEN <<>> ELSE From(hostport, pc + 1)
  IN [hasUserinfo |-> at > 0, user |-> user, hasPassword |-> uc > 0, password |-> password,
      host |-> host, bracketed |-> bracketed, hasPort |-> pc > 0, port |-> port,
      \* shapes the RFC grammar does not produce but yarl accepts; the split is unspecified for them
      oddBrackets |-> \/ (lb = 0 /\ Has(hostport, RBR)) \/ (lb > 0 /\ rb = 0)
                      \/ (bracketed /\ (lb > 1 \/ HasAny(From(hostport, rb + 1), {LBR, RBR})
                                        \/ HasAny(Sub(hostport, lb + 1, rb - 1), {LBR})
                                        \/ (rb < Len(hostport) /\ hostport[rb + 1] # COLON)))]

\* ------------------------------------------------------------ 5.2.4
RemoveLastSegment(out) == LET i == RFind(out, SLASH) IN IF i = 0 THEN <<>> ELSE Upto(out, i - 1)
RECURSIVE Rds(_, _)
Rds(in, out) ==
  IF in = <<>> THEN out
  \* A
  ELSE IF StartsWith(in, <<DOT, DOT, SLASH>>) THEN Rds(From(in, 4), out)
  ELSE IF StartsWith(in, <<DOT, SLASH>>) THEN Rds(From(in, 3), out)
  \* B
  ELSE IF StartsWith(in, <<SLASH, DOT, SLASH>>) THEN Rds(From(in, 3), out)
  ELSE IF in = <<SLASH, DOT>> THEN Rds(<<SLASH>>, out)
  \* C
  ELSE IF StartsWith(in, <<SLASH, DOT, DOT, SLASH>>) THEN Rds(From(in, 4), RemoveLastSegment(out))
  ELSE IF in = <<SLASH, DOT, DOT>> THEN Rds(<<SLASH>>, RemoveLastSegment(out))
  \* D
  ELSE IF in = <<DOT>> \/ in = <<DOT, DOT>> THEN Rds(<<>>, out)
  \* E: first path segment incl. the initial "/" (if any) up to, not including, the next "/"
  ELSE LET n == FindIn(in, 2, {SLASH}) IN
       IF n = 0 THEN Rds(<<>>, out \o in) ELSE Rds(From(in, n), out \o Upto(in, n - 1))
RemoveDotSegments(p) == Rds(p, <<>>)

\* ------------------------------------------------------------ 5.2.3 / 5.2.2
Merge(baseHasAuth, basePath, refPath) ==
  IF baseHasAuth /\ basePath = <<>> THEN <<SLASH>> \o refPath
  ELSE LET i == RFind(basePath, SLASH) IN (IF i = 0 THEN <<>> ELSE Upto(basePath, i)) \o refPath

\* B, R: records [scheme, hasAuth, authority, path, hasQuery, query, hasFragment, fragment]
Transform(B, R, strict) ==
  LET rScheme == IF ~strict /\ R.scheme = B.scheme THEN <<>> ELSE R.scheme IN
  IF rScheme # <<>> THEN
     [scheme |-> rScheme, hasAuth |-> R.hasAuth, authority |-> R.authority,
      path |-> RemoveDotSegments(R.path), hasQuery |-> R.hasQuery, query |-> R.query,
      hasFragment |-> R.hasFragment, fragment |-> R.fragment]
  ELSE IF R.hasAuth THEN
     [scheme |-> B.scheme, hasAuth |-> TRUE, authority |-> R.authority,
      path |-> RemoveDotSegments(R.path), hasQuery |-> R.hasQuery, query |-> R.query,
      hasFragment |-> R.hasFragment, fragment |-> R.fragment]
  ELSE IF R.path = <<>> THEN
     [scheme |-> B.scheme, hasAuth |-> B.hasAuth, authority |-> B.authority, path |-> B.path,
      hasQuery |-> IF R.hasQuery THEN TRUE ELSE B.hasQuery,
      query |-> IF R.hasQuery THEN R.query ELSE B.query,
      hasFragment |-> R.hasFragment, fragment |-> R.fragment]
  ELSE
     [scheme |-> B.scheme, hasAuth |-> B.hasAuth, authority |-> B.authority,
      path |-> IF R.path[1] = SLASH THEN RemoveDotSegments(R.path)
               ELSE RemoveDotSegments(Merge(B.hasAuth, B.path, R.path)),
      hasQuery |-> R.hasQuery, query |-> R.query,
      hasFragment |-> R.hasFragment, fragment |-> R.fragment]

\* ------------------------------------------------------------ 5.3
Recompose(T) ==
  (IF T.scheme # <<>> THEN T.scheme \o <<COLON>> ELSE <<>>)
  \o (IF T.hasAuth THEN <<SLASH, SLASH>> \o T.authority ELSE <<>>)
  \o T.path
  \o (IF T.hasQuery THEN <<QMARK>> \o T.query ELSE <<>>)
  \o (IF T.hasFragment THEN <<HASH>> \o T.fragment ELSE <<>>)

\* reference record from a string (5.2.1 "parse"), definedness from delimiter presence
ParseRef(s) ==
  LET p == AppendixB(s)
      h == Find(s, HASH)
      beforeHash == IF h = 0 THEN s ELSE Upto(s, h - 1) IN
  [scheme |-> p.scheme, hasAuth |-> p.hasAuth, authority |-> p.authority, path |-> p.path,
   hasQuery |-> Has(beforeHash, QMARK), query |-> p.query, hasFragment |-> h > 0, fragment |-> p.fragment]
Resolve(base, ref, strict) == Recompose(Transform(ParseRef(base), ParseRef(ref), strict))
=============================================================================
