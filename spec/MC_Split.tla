------------------------------ MODULE MC_Split ------------------------------
(***************************************************************************)
(* R1 for C07 (and the parsing part of C19): TLC enumerates EVERY string   *)
(* over a delimiter alphabet up to MaxLen and checks that the              *)
(* implementation-shaped splitter (ImplUrl!SplitUrl / SplitNetloc / Str)   *)
(* refines the RFC 3986 transcription (Rfc3986!AppendixB / SplitAuthority).*)
(* The reachable strings are dumped and replayed on the real constructor   *)
(* in both modes (R2).                                                     *)
(***************************************************************************)
EXTENDS ContractUrl, ImplUrl, Rfc3986Tables, TLC
CONSTANTS MaxLen, Alphabet

\* a 1 : / ? # @ [ ] . + % space TAB LF v
DelimAlphabet == {97, 49, 58, 47, 63, 35, 64, 91, 93, 46, 43, 37, 32, 9, 10, 118}

VARIABLE s
Init == s = <<>>
Next == \E c \in Alphabet : Len(s) < MaxLen /\ s' = Append(s, c)

R == SplitUrl(s)
\* Level I outcome as a Level A observation of the five parts
Parts(u) == [val |-> [ok |-> <<u.scheme, u.netloc, u.path, u.query, u.fragment>>]]

\* the splitter computes the Appendix B decomposition (scheme gray zone: either reading)
Inv_Decompose == IsOK(R) => C07_DecomposeEncoded(s, Parts(R.ok))
\* split_netloc is the section 3.2 split
Inv_AuthSplit ==
  (IsOK(R) /\ R.ok.netloc # <<>>) =>
    LET sn == SplitNetloc(R.ok.netloc) sa == SplitAuthority(R.ok.netloc) IN
    (IsOK(sn) /\ ~sa.oddBrackets) =>
       /\ sn.ok.user = (IF sa.user = <<>> THEN NONE ELSE SOME(sa.user))
       /\ sn.ok.password = (IF sa.hasPassword THEN SOME(sa.password) ELSE NONE)
       /\ sn.ok.host = (IF sa.host = <<>> THEN NONE ELSE SOME(sa.host))
       /\ (sa.port = <<>> => sn.ok.port = NONE)
       /\ (AllDigits(sa.port) => sn.ok.port = SOME(DigitsVal(sa.port)))
\* ports: all-digit in range accepted with that value, digit-free rejected
Inv_Port ==
  (IsOK(R) /\ R.ok.netloc # <<>>) =>
    LET sn == SplitNetloc(R.ok.netloc) sa == SplitAuthority(R.ok.netloc) IN
    ~sa.oddBrackets =>
       /\ (sa.port # <<>> /\ ~HasAny(sa.port, Digit)) => ~IsOK(sn)
       /\ (AllDigits(sa.port) /\ Len(sa.port) <= 5 /\ DigitsVal(sa.port) <= 65535) => IsOK(sn)
\* str() re-composes: Appendix B of the printed string gives the parts back
Inv_Recompose ==
  IsOK(R) => LET st == Str(R.ok) IN
    IsOK(st) => C07_Recompose([val |-> [ok |-> <<R.ok.scheme, R.ok.netloc, R.ok.path, R.ok.query, R.ok.fragment>>],
                               str |-> [ok |-> st.ok]])
\* a valid reference is never refused
Inv_MustAccept == C07_MustAccept(s) => IsOK(R)
\* C19: the splitter never crashes.  (Before the fix: commit in /repo, an empty bracket pair "//[]" indexed
\* an empty string: Dev_EmptyBracketIndex.  The negative configuration switches the deviation On again
\* and must produce the counterexample -- non-vacuity of this invariant.)
Inv_NoCrash == "crash" \notin DOMAIN R
=============================================================================
