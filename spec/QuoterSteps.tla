---------------------------- MODULE QuoterSteps ----------------------------
(***************************************************************************)
(* LEVEL I step machines of the two quoters, one action per loop branch,   *)
(* run side by side on the same input (C05), for all nine configurations.  *)
(*                                                                         *)
(* Pure Python (_quoting_py._Quoter.__call__): a BYTE machine over the     *)
(* UTF-8 of the input (lone surrogates dropped first) with a 3-byte `pct`  *)
(* window that REWINDS (idx -= 2, idx -= 1) on a malformed escape:         *)
(*    PyStartPct / PyPctAtEnd / PyFeedPct / PyPctBad(rewind 2) /           *)
(*    PyPctComplete / PyPctTruncated(rewind 1) / PySpace / PySafe /        *)
(*    PyEscapeByte / PyFinish                                              *)
(* Compiled (_quoting_c._Quoter._do_quote): a CODE-POINT loop with two     *)
(* characters of look-ahead and a `changed` flag that lets it return the   *)
(* input object:                                                           *)
(*    CSkip (all safe: _do_quote_or_skip) / CEscape(protected|safe|other) /*)
(*    CBarePct / CWrite(space|safe|utf8|surrogate) / CFinish               *)
(*                                                                         *)
(* Checked: both machines TERMINATE WITH the closed forms of ImplQuote     *)
(* (QuotePy / QuoteC) -- so the rewinding byte machine and the look-ahead  *)
(* code-point machine are shown to compute the same function outside the   *)
(* named surrogate deviation -- and never read outside their input.        *)
(***************************************************************************)
EXTENDS ImplQuote, TLC
CONSTANTS MaxLen, Alphabet
\* negative configuration (non-vacuity): the malformed-escape rewind off by one
RewindBad == 2
One == 1
CharCore == {37, 50, 53, 70, 102, 52, 49, 47, 43, 65, 122, 32, 233, 8364, 128512, 55296}
SmallCore == {37, 50, 70, 102, 52, 49, 47, 43, 32, 233, 55296, 71}

VARIABLES phase,    \* "build" (the input is being chosen) | "run" | "done"
          s,        \* the input text
          name,     \* quoter configuration
          \* python machine
          bval, idx, pct, ret, pydone,
          \* compiled machine
          ci, cout, changed, cdone, skipped
vars == <<phase, s, name, bval, idx, pct, ret, pydone, ci, cout, changed, cdone, skipped>>
cfg == QuoterCfg(name)

Init == /\ phase = "build" /\ s = <<>> /\ name \in QuoterNames
        /\ bval = <<>> /\ idx = 1 /\ pct = <<>> /\ ret = <<>> /\ pydone = FALSE
        /\ ci = 1 /\ cout = <<>> /\ changed = FALSE /\ cdone = FALSE /\ skipped = FALSE
Grow == /\ phase = "build" /\ Len(s) < MaxLen /\ \E c \in Alphabet : s' = Append(s, c)
        /\ UNCHANGED <<phase, name, bval, idx, pct, ret, pydone, ci, cout, changed, cdone, skipped>>
Begin == /\ phase = "build" /\ phase' = "run"
         /\ bval' = Utf8S(DropSurrogates(s))                       \* val.encode("utf8", errors="ignore")
         /\ UNCHANGED <<s, name, idx, pct, ret, pydone, ci, cout, changed, cdone, skipped>>

\* ------------------------------------------------------------------ python byte machine
Up(b) == IF b \in 97..122 THEN b - 32 ELSE b
IsHexUp(b) == b \in (48..57) \cup (65..90)                        \* _IS_HEX = [A-Z0-9][A-Z0-9] (then int(.., 16) decides)
IsRealHex(b) == b \in (48..57) \cup (65..70)
PyLoop == phase = "run" /\ ~pydone /\ idx <= Len(bval)
PyU == UNCHANGED <<phase, s, name, bval, ci, cout, changed, cdone, skipped>>
PyFeedPct ==        \* pct non-empty: append the (upper-cased) byte
  /\ PyLoop /\ pct # <<>>
  /\ LET ch == Up(bval[idx]) p2 == Append(pct, ch) i2 == idx + 1 IN
     IF Len(p2) = 3 THEN
        IF ~(IsHexUp(p2[2]) /\ IsHexUp(p2[3])) \/ ~(IsRealHex(p2[2]) /\ IsRealHex(p2[3]))
        THEN /\ ret' = ret \o <<37, 50, 53>> /\ pct' = <<>> /\ idx' = i2 - RewindBad    \* PyPctBad: rewind 2
        ELSE LET b == HexVal(p2[2]) * 16 + HexVal(p2[3]) IN                           \* PyPctComplete
             /\ ret' = ret \o (IF b < 128 /\ b \in cfg.protected THEN p2 ELSE IF b < 128 /\ b \in SafeSet(cfg) THEN <<b>> ELSE p2)
             /\ pct' = <<>> /\ idx' = i2
     ELSE IF Len(p2) = 2 /\ i2 = Len(bval) + 1
          THEN /\ ret' = ret \o <<37, 50, 53>> /\ pct' = <<>> /\ idx' = i2 - 1            \* PyPctTruncated: rewind 1
          ELSE /\ pct' = p2 /\ idx' = i2 /\ ret' = ret
  /\ pydone' = FALSE /\ PyU
PyStartPct ==
  /\ PyLoop /\ pct = <<>> /\ bval[idx] = 37 /\ cfg.requote
  /\ pct' = <<37>> /\ idx' = idx + 1
  /\ ret' = IF idx + 1 = Len(bval) + 1 THEN ret \o <<37, 50, 53>> ELSE ret             \* PyPctAtEnd
  /\ pydone' = FALSE /\ PyU
PyPlain ==
  /\ PyLoop /\ pct = <<>> /\ ~(bval[idx] = 37 /\ cfg.requote)
  /\ LET ch == bval[idx] IN
     ret' = ret \o (IF cfg.qs /\ ch = 32 THEN <<43>>                                    \* PySpace
                    ELSE IF ch < 128 /\ ch \in SafeSet(cfg) THEN <<ch>>                 \* PySafe
                    ELSE PctEnc(ch))                                                    \* PyEscapeByte
  /\ idx' = idx + 1 /\ pct' = pct /\ pydone' = FALSE /\ PyU
PyFinish == /\ phase = "run" /\ ~pydone /\ idx > Len(bval) /\ pydone' = TRUE
            /\ UNCHANGED <<phase, s, name, bval, idx, pct, ret, ci, cout, changed, cdone, skipped>>

\* ------------------------------------------------------------------ compiled code-point machine
CLoop == phase = "run" /\ ~cdone /\ ~skipped /\ ci <= Len(s)
CU == UNCHANGED <<phase, s, name, bval, idx, pct, ret, pydone>>
CSkip ==            \* _do_quote_or_skip: nothing to quote
  /\ phase = "run" /\ ~cdone /\ ci = 1 /\ cout = <<>> /\ ~skipped /\ AllSafe(cfg, s)
  /\ skipped' = TRUE /\ cdone' = TRUE /\ UNCHANGED <<ci, cout, changed>> /\ CU
CEscape ==          \* '%' followed by two hex digits, requote
  /\ CLoop /\ ~AllSafe(cfg, s) /\ s[ci] = 37 /\ cfg.requote /\ IsPctAt(s, ci)
  /\ LET b == PctByte(s, ci) IN
     IF b < 128 /\ b \in cfg.protected THEN cout' = cout \o PctEnc(b) /\ changed' = TRUE
     ELSE IF b < 128 /\ b \in SafeSet(cfg) THEN cout' = cout \o <<b>> /\ changed' = TRUE
     ELSE cout' = cout \o PctEnc(b) /\ changed' = (changed \/ s[ci + 1] \in 97..102 \/ s[ci + 2] \in 97..102)
  /\ ci' = ci + 3 /\ UNCHANGED <<cdone, skipped>> /\ CU
CWrite ==           \* any other character (a '%' that does not start an escape is written as itself: CBarePct)
  /\ CLoop /\ ~AllSafe(cfg, s) /\ ~(s[ci] = 37 /\ cfg.requote /\ IsPctAt(s, ci))
  /\ cout' = cout \o WriteOut(cfg, s[ci]) /\ changed' = (changed \/ WriteChanged(cfg, s[ci]))
  /\ ci' = ci + 1 /\ UNCHANGED <<cdone, skipped>> /\ CU
CFinish == /\ phase = "run" /\ ~cdone /\ ~skipped /\ ~AllSafe(cfg, s) /\ ci > Len(s) /\ cdone' = TRUE
           /\ UNCHANGED <<ci, cout, changed, skipped>> /\ CU
Finish == /\ phase = "run" /\ pydone /\ cdone /\ phase' = "done"
          /\ UNCHANGED <<s, name, bval, idx, pct, ret, pydone, ci, cout, changed, cdone, skipped>>

Next == Grow \/ Begin \/ PyFeedPct \/ PyStartPct \/ PyPlain \/ PyFinish \/ CSkip \/ CEscape \/ CWrite \/ CFinish \/ Finish
Spec == Init /\ [][Next]_vars

CResult == IF skipped THEN s ELSE IF changed THEN cout ELSE s
\* both machines terminate with the closed forms
Inv_PyClosedForm == pydone => ret = QuotePy(cfg, s)
Inv_CClosedForm == cdone => CResult = QuoteC(cfg, s)
\* the rewinding window never leaves the input and never moves before its start
Inv_PyIndex == idx >= 1 /\ idx <= Len(bval) + 1 /\ Len(pct) <= 2
Inv_CIndex == ci >= 1 /\ ci <= Len(s) + 1
\* C05 at machine level: joint termination with equal results outside the named deviation region
Inv_Interchangeable == phase = "done" => (PySurrogateRegion(cfg, s) \/ ret = CResult)
=============================================================================
