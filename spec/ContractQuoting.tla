-------------------------- MODULE ContractQuoting --------------------------
(***************************************************************************)
(* LEVEL A -- contracts on percent-encoding, independent of how yarl does  *)
(* it.  Transcribed from the property statements C01/C02/C04/C06 and the   *)
(* RFC 3986 component grammars.                                            *)
(*                                                                         *)
(*   WellFormed(c, t)         C01: ASCII, every '%' starts two upper-case  *)
(*                            hex digits, other characters legal in c      *)
(*   SameMeaning(k, in, out)  C02: equal skeletons (delimiters keep their  *)
(*                            literal/encoded status, data bytes equal)    *)
(*   CanonicalText(c, t)      C04: the canonical language of component c   *)
(*   Decode(kind, raw)        C06: what a decoded accessor must return     *)
(***************************************************************************)
EXTENDS Text

Components == {"user", "password", "path", "query", "fragment"}

\* characters RFC 3986 allows literally in each component (pct-encoded apart)
Legal(c) ==
  CASE c = "user"     -> Unreserved \cup SubDelims \cup {COLON}
    [] c = "password" -> Unreserved \cup SubDelims \cup {COLON}
    [] c = "path"     -> PChar \cup {SLASH}
    [] c = "query"    -> PChar \cup {SLASH, QMARK}
    [] c = "fragment" -> PChar \cup {SLASH, QMARK}

\* C01 ------------------------------------------------------------------
RECURSIVE WfFrom(_, _, _)
WfFrom(L, t, i) ==
  IF i > Len(t) THEN TRUE
  ELSE IF t[i] = PCT THEN IsUpperPctAt(t, i) /\ WfFrom(L, t, i + 3)
  ELSE t[i] \in L /\ WfFrom(L, t, i + 1)
WellFormed(c, t) == WfFrom(Legal(c), t, 1)

\* the whole-string clause: ASCII and every % starts an upper-case escape
RECURSIVE PctOkFrom(_, _)
PctOkFrom(t, i) ==
  IF i > Len(t) THEN TRUE
  ELSE IF t[i] >= 128 THEN FALSE
  ELSE IF t[i] = PCT THEN IsUpperPctAt(t, i) /\ PctOkFrom(t, i + 3)
  ELSE PctOkFrom(t, i + 1)
AsciiUpperEscapes(t) == PctOkFrom(t, 1)

\* C02 ------------------------------------------------------------------
(* Skeleton items are integers:  b (0..255) a data byte,                   *)
(*                               1000+d    a literal delimiter d,          *)
(*                               2000+d    an encoded delimiter d.         *)
(* A "kind" says how a text is to be read:                                 *)
(*   esc    : is %HH in the text an escape (TRUE) or three literal chars   *)
(*   delims : the component's delimiters whose literal/encoded status      *)
(*            matters ('/' in paths;  & = + ; in query strings)            *)
(*   qs     : query-string conventions (literal space == literal '+')      *)
(*   part   : the text is ONE query key or value: every character is data  *)
(*            on input; on output '+' means space and a literal & = ;      *)
(*            would be a (wrong) delimiter.                                *)
QueryDelims == {AMP, EQ, PLUS, SEMI}

RECURSIVE SkelFrom(_, _, _, _, _)
SkelFrom(t, i, esc, delims, qs) ==
  IF i > Len(t) THEN <<>>
  ELSE IF esc /\ IsPctAt(t, i) THEN
       LET b == PctByte(t, i) IN
       <<IF b \in delims THEN 2000 + b ELSE b>> \o SkelFrom(t, i + 3, esc, delims, qs)
  ELSE IF t[i] \in delims THEN <<1000 + t[i]>> \o SkelFrom(t, i + 1, esc, delims, qs)
  ELSE IF qs /\ t[i] = SPACE /\ PLUS \in delims THEN <<1000 + PLUS>> \o SkelFrom(t, i + 1, esc, delims, qs)
  ELSE Utf8(t[i]) \o SkelFrom(t, i + 1, esc, delims, qs)

\* reading of the OUTPUT of a query-part quoter (a key or a value inside a query string)
RECURSIVE SkelPartOut(_, _)
SkelPartOut(t, i) ==
  IF i > Len(t) THEN <<>>
  ELSE IF IsPctAt(t, i) THEN <<PctByte(t, i)>> \o SkelPartOut(t, i + 3)
  ELSE IF t[i] = PLUS THEN <<SPACE>> \o SkelPartOut(t, i + 1)
  ELSE IF t[i] \in {AMP, EQ, SEMI} THEN <<1000 + t[i]>> \o SkelPartOut(t, i + 1)
  ELSE Utf8(t[i]) \o SkelPartOut(t, i + 1)

\* kinds of supplied text
Kinds == {"user", "password", "path", "query", "fragment", "qpart"}
DelimsOf(k) == IF k = "path" THEN {SLASH} ELSE IF k = "query" THEN QueryDelims ELSE {}
ComponentOf(k) == IF k = "qpart" THEN "query" ELSE k

\* requote = TRUE: the supplied text may already contain escapes (constructor);
\* requote = FALSE: the supplied text is decoded text, '%' is data (build / with_* / "/")
SkelIn(k, requote, t) ==
  IF k = "qpart" THEN Utf8S(t)
  ELSE SkelFrom(t, 1, requote, DelimsOf(k), k = "query")
SkelOut(k, t) ==
  IF k = "qpart" THEN SkelPartOut(t, 1)
  ELSE SkelFrom(t, 1, TRUE, DelimsOf(k), k = "query")
HasSurrogate(t) == \E i \in 1..Len(t) : IsSurrogate(t[i])
SameMeaning(k, requote, in, out) == SkelIn(k, requote, in) = SkelOut(k, out)

\* C04 ------------------------------------------------------------------
(* Canonical text of a component: only characters that are literal there   *)
(* in yarl's documented policy (= RFC-legal, except that a password has no *)
(* literal ':'), and upper-case escapes only for bytes that must be        *)
(* escaped there or that are the component's reserved delimiters.          *)
CanonLiteral(c) ==
  CASE c = "user"     -> Unreserved \cup SubDelims
    [] c = "password" -> Unreserved \cup SubDelims
    [] c = "path"     -> PChar \cup {SLASH}
    [] c = "query"    -> PChar \cup {SLASH, QMARK}
    [] c = "fragment" -> PChar \cup {SLASH, QMARK}
\* bytes that MAY stay escaped although they could be literal: the reserved delimiters of c
MayEscape(c) ==
  CASE c = "path"  -> {SLASH, PLUS}
    [] c = "query" -> QueryDelims
    [] OTHER       -> {}
RECURSIVE CanonFrom(_, _, _)
CanonFrom(c, t, i) ==
  IF i > Len(t) THEN TRUE
  ELSE IF t[i] = PCT THEN
       /\ IsUpperPctAt(t, i)
       /\ LET b == PctByte(t, i) IN b \notin CanonLiteral(c) \/ b \in MayEscape(c)
       /\ CanonFrom(c, t, i + 3)
  ELSE t[i] \in CanonLiteral(c) /\ ~(c = "query" /\ t[i] = SPACE) /\ CanonFrom(c, t, i + 1)
CanonicalText(c, t) == CanonFrom(c, t, 1)

\* C06 ------------------------------------------------------------------
(* Decode(raw, qs, keep, upper): left to right; a maximal well-formed      *)
(* UTF-8 sequence spelled as escapes becomes its character; anything else  *)
(* is copied verbatim one character at a time; '+' means space only when   *)
(* qs; a decoded character in `keep` stays an escape (upper-cased when     *)
(* `upper`, verbatim otherwise).                                           *)
RECURSIVE EscRun(_, _, _)
\* bytes of up to n consecutive escapes starting at i
EscRun(t, i, n) == IF n = 0 \/ ~IsPctAt(t, i) THEN <<>> ELSE <<PctByte(t, i)>> \o EscRun(t, i + 3, n - 1)

RECURSIVE DecodeFrom(_, _, _, _, _)
DecodeFrom(t, i, qs, keep, upper) ==
  IF i > Len(t) THEN <<>>
  ELSE IF IsPctAt(t, i) THEN
       LET bs == EscRun(t, i, 4)
           n  == Utf8Len(bs) IN
       IF n = 0 THEN <<t[i]>> \o DecodeFrom(t, i + 1, qs, keep, upper)
       ELSE LET ch == Utf8Scalar(bs, n) IN
            (IF ch \in keep THEN (IF upper THEN PctEnc(ch) ELSE Sub(t, i, i + 2)) ELSE <<ch>>)
            \o DecodeFrom(t, i + 3 * n, qs, keep, upper)
  ELSE IF qs /\ t[i] = PLUS THEN <<SPACE>> \o DecodeFrom(t, i + 1, qs, keep, upper)
  ELSE <<t[i]>> \o DecodeFrom(t, i + 1, qs, keep, upper)

DecodePlain(t) == DecodeFrom(t, 1, FALSE, {}, TRUE)
DecodeQs(t)    == DecodeFrom(t, 1, TRUE, {}, TRUE)
\* path_safe keeps %2F and %25 (either spelling accepted)
IsDecodePathSafe(raw, obs) ==
  \/ obs = DecodeFrom(raw, 1, FALSE, {SLASH, PCT}, TRUE)
  \/ obs = DecodeFrom(raw, 1, FALSE, {SLASH, PCT}, FALSE)
\* query_string: like a query it must stay parseable; the statement names no keep-set for it, so
\* every subset of {+ = & ;} kept encoded is accepted (yarl keeps all four)
IsDecodeQueryString(raw, obs) ==
  \E ks \in SUBSET QueryDelims : \E up \in BOOLEAN : obs = DecodeFrom(raw, 1, TRUE, ks, up)

\* the (key, value) pairs a query string denotes: split on '&', empty pieces skipped,
\* key/value split at the first '=', blanks kept, both decoded with '+' as space
QueryPairs(raw) ==
  LET pieces == SelectSeq(Split(raw, AMP), LAMBDA p : p # <<>>) IN
  [i \in 1..Len(pieces) |->
     LET pr == Partition(pieces[i], EQ) IN <<DecodeQs(pr[1]), DecodeQs(pr[3])>>]
=============================================================================
