------------------------------ MODULE YarlValue ------------------------------
(***************************************************************************)
(* The URL VALUE MACHINE: the state is one URL value (the five stored      *)
(* parts); Init = every seed string through the auto-encoding constructor; *)
(* and every URL.build keyword combination of Seeds!BuildKws;              *)
(* one action per public modifier, arguments drawn from small text sets    *)
(* (delimiters of every component, escapes valid and malformed, non-ASCII, *)
(* dot segments).  Transitions are computed by Level I (ImplOps!Apply);    *)
(* an operation whose Level I outcome is an exception stutters.            *)
(*                                                                         *)
(* Checked in every reachable state / on every transition: the Level A     *)
(* clauses of ContractUrl evaluated on the observation Level I derives     *)
(* from the value -- so "all URLs reachable by build()/modifier chains"    *)
(* (C01, C03, C07, C15, C17) and the frame conditions (C11) are literal.   *)
(* `last` makes every state self-describing (receiver, action, arguments), *)
(* so the dumped states are replayed one transition at a time on the real  *)
(* library (R2): receiver rebuilt with URL(SplitResult(...), encoded=True).*)
(***************************************************************************)
EXTENDS ContractUrl, ImplOps, Seeds, TLC
CONSTANT MaxDepth

VARIABLES u, last, depth
vars == <<u, last, depth>>

\* the observation Level I derives from a value: every accessor of ImplOps!AccM, plus the five parts
ObsM(x) == [f \in AccessorNames \cup {"val"} |->
              IF f = "val" THEN [ok |-> <<x.scheme, x.netloc, x.path, x.query, x.fragment>>] ELSE AccM(f, x)]

\* the outcome of an attempted operation: a new value, or -- when Level I says the operation raises -- the SAME value with the
\* attempt recorded, so that rejected operations are replayed on the real library too (which must not return a URL that
\* breaks a contract where the model sees an exception)
Outcome(r, act, a) ==
  \/ (IsOK(r) /\ u' = r.ok /\ last' = [act |-> act, args |-> a, prev |-> u])
  \/ ("exc" \in DOMAIN r /\ u' = u /\ last' = [act |-> act, args |-> a, prev |-> u, rejected |-> r.exc])

Init == /\ depth = 0
        /\ \/ (/\ \E s \in SeedStrings : LET r == EncodeUrl("c", s) IN IsOK(r) /\ u = r.ok
               /\ last = [act |-> "seed"])
           \* URL.build: the other way a chain starts (a keyword combination Level I rejects is no initial state)
           \/ \E kw \in BuildKws : LET r == Build("c", kw) IN
                 IsOK(r) /\ u = r.ok /\ last = [act |-> "build", args |-> [op |-> "build", kw |-> kw]]

TextStep(act) == \E v \in ArgTexts :
   \/ (act \in {"with_user", "with_password", "with_fragment"} /\ LET a == [op |-> act, v |-> <<v>>] IN
         LET r == Apply("c", act, a, u, u) IN Outcome(r, act, a))
   \/ (act \in {"with_name", "with_path"} /\ LET a == [op |-> act, v |-> v, encoded |-> FALSE, keep_query |-> FALSE, keep_fragment |-> TRUE] IN
         LET r == Apply("c", act, a, u, u) IN Outcome(r, act, a))
   \/ (act = "truediv" /\ LET a == [op |-> act, v |-> v] IN
         LET r == Apply("c", act, a, u, u) IN Outcome(r, act, a))
   \/ (act = "with_query" /\ LET a == [op |-> act, q |-> [form |-> "str", s |-> v, pairs |-> <<>>]] IN
         LET r == Apply("c", act, a, u, u) IN Outcome(r, act, a))
   \/ (act \in {"extend_query", "update_query"} /\ LET a == [op |-> act, q |-> [form |-> "str", s |-> v, pairs |-> <<>>]] IN
         LET r == Apply("c", act, a, u, u) IN Outcome(r, act, a))
   \/ (act = "update_query_pairs" /\ LET a == [op |-> "update_query", q |-> [form |-> "pairs", s |-> <<>>, pairs |-> << <<v, [t |-> "str", s |-> v]>>, <<<<120>>, [t |-> "str", s |-> v]>> >>]] IN
         LET r == Apply("c", "update_query", a, u, u) IN Outcome(r, "update_query", a))
   \/ (act = "without_query_params" /\ LET a == [op |-> act, keys |-> <<v, <<120>>>>] IN
         LET r == Apply("c", act, a, u, u) IN Outcome(r, act, a))
   \/ (act = "with_query_pairs" /\ LET a == [op |-> "with_query", q |-> [form |-> "pairs", s |-> <<>>, pairs |-> << <<v, [t |-> "str", s |-> v]>> >>]] IN
         LET r == Apply("c", "with_query", a, u, u) IN Outcome(r, "with_query", a))
Step(act, a) == LET r == Apply("c", act, a, u, u) IN Outcome(r, act, a)
JoinStep == \E s \in RefStrings : LET rr == EncodeUrl("c", s) IN
   IsOK(rr) /\ u' = Join(u, rr.ok) /\ last' = [act |-> "join", args |-> [op |-> "join", ref |-> [op |-> "ctor", s |-> s, encoded |-> FALSE]], prev |-> u]
Next ==
  /\ depth < MaxDepth /\ depth' = depth + 1
  /\ \/ \E act \in {"with_user", "with_password", "with_fragment", "with_name", "with_path", "truediv", "with_query", "with_query_pairs",
                     "extend_query", "update_query", "update_query_pairs", "without_query_params"} : TextStep(act)
     \/ \E v \in {<<>>} : Step("with_user", [op |-> "with_user", v |-> <<>>])
     \/ Step("with_password", [op |-> "with_password", v |-> <<>>]) \/ Step("with_fragment", [op |-> "with_fragment", v |-> <<>>])
     \/ \E h \in HostArgs : Step("with_host", [op |-> "with_host", v |-> h])
     \/ \E sc \in SchemeArgs : Step("with_scheme", [op |-> "with_scheme", v |-> sc])
     \/ \E p \in {<<48>>, <<56, 48>>, <<52, 52, 51>>, <<54, 53, 53, 51, 53>>} : Step("with_port", [op |-> "with_port", v |-> [t |-> "int", s |-> p]])
     \/ Step("with_port", [op |-> "with_port", v |-> [t |-> "none", s |-> <<>>]])
     \/ \E x \in SuffixArgs : Step("with_suffix", [op |-> "with_suffix", v |-> x, keep_query |-> TRUE, keep_fragment |-> FALSE])
     \/ \E a \in ArgTexts, b \in {<<>>, <<97>>, <<46, 46>>} : Step("joinpath", [op |-> "joinpath", vs |-> <<a, b>>, encoded |-> FALSE])
     \/ Step("parent", [op |-> "parent"]) \/ Step("origin", [op |-> "origin"]) \/ Step("relative", [op |-> "relative"])
     \/ JoinStep
Spec == Init /\ [][Next]_vars

\* ------------------------------------------------------------------ state invariants (Level A on Level I's observation)
O == ObsM(u)
\* the known deviation regions of Level I (each has a KNOWN-FINDING entry); outside them the contracts must hold
EmptyHostRegion(x) == x.netloc # <<>> /\ SplitAuthority(x.netloc).host = <<>>
FirstSegColonRegion(x) == x.scheme = <<>> /\ x.netloc = <<>> /\ LET c == Find(x.path, COLON) IN c > 1 /\ \A k \in 1..(c - 1) : x.path[k] \in SchemeChars
Inv_C01 == C01_Components(O) /\ (C01_SchemeSane(O) => C01_Ascii(O))
Inv_C07_Accessors == C07_AccessorsMatchParts(O)
Inv_C07_AuthSplit == C07_AuthoritySplit(O)
Inv_C07_Recompose == (FirstSegColonRegion(u) \/ EmptyHostRegion(u)) \/ C07_Recompose(O)
Inv_C15 == C15_NoDots(O)
Inv_C19_StrTotal == Ok(O.str)
\* C03: re-parsing the printed form gives the same value (valid scheme; outside the known regions)
PortOfM(x) == LET ep == ExplicitPort(x) IN IF ~IsOK(ep) THEN ep ELSE IF ~IsNone(ep.ok) THEN ep ELSE OK(DefaultPortOf(x.scheme))
Inv_C03 == (C01_SchemeSane(O) /\ ~FirstSegColonRegion(u) /\ ~EmptyHostRegion(u) /\ Ok(O.str)) =>
              LET r == EncodeUrl("c", V(O.str)) IN
              /\ IsOK(r) /\ r.ok.scheme = u.scheme /\ PathEq(r.ok.path, u.path) /\ r.ok.query = u.query /\ r.ok.fragment = u.fragment
              /\ RawUser(r.ok) = RawUser(u) /\ RawPassword(r.ok) = RawPassword(u) /\ RawHost(r.ok) = RawHost(u)
              /\ PortOfM(r.ok) = PortOfM(u)
\* C06: Level I's decoded accessors are the Level A decoding of the raw ones (query: outside the replacement-decoding region)
Inv_C06 == /\ C06_User(O) /\ C06_Password(O) /\ C06_Path(O) /\ C06_PathSafe(O) /\ C06_Parts(O) /\ C06_Name(O)
           /\ C06_Suffix(O) /\ C06_Fragment(O) /\ C06_QueryString(O)
\* C13: accessor relations of the path algebra
Inv_C13 == C13_PartsRecompose(O) /\ C13_NameIsLast(O) /\ C13_SuffixIsTail(O)
\* C16 / C17 on every reachable value
Inv_C16 == C16_LowerAscii(O) /\ (C16_Ipv6Canonical(O) \/ EmptyHostRegion(u))
Inv_C17 == C17_PortFallback(O) /\ C17_Range(O) /\ (EmptyHostRegion(u) \/ C17_StrPort(O))
\* ------------------------------------------------------------------ action property: frame conditions (C11)
Frame == last.act \in {"seed", "build"} \/ "rejected" \in DOMAIN last \/ ~C11_Applies(last.act) \/ EmptyHostRegion(last.prev)
         \/ C11_Frame(last.act, last.args, ObsM(last.prev), O)
=============================================================================
