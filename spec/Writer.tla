------------------------------- MODULE Writer -------------------------------
(***************************************************************************)
(* LEVEL I -- the compiled quoter's output writer (_quoting_c.pyx: Writer, *)
(* _init_writer, _write_char, _release_writer and the try/finally of       *)
(* _do_quote_or_skip) as a step machine, one action per code path:         *)
(*   Start        _init_writer: buf = static BUFFER, size = BUF, pos = 0   *)
(*   WriteNoGrow  _write_char with pos < size                              *)
(*   GrowFirst    pos = size, buf is BUFFER: PyMem_Malloc + memcpy         *)
(*   GrowAgain    pos = size, buf on the heap: PyMem_Realloc               *)
(*   GrowFail     malloc / realloc returns NULL: MemoryError, go to finally*)
(*   FinishOk     PyUnicode_DecodeASCII(buf, pos) succeeds                 *)
(*   FinishFail   ... fails (allocation): MemoryError                      *)
(*   Release      finally: PyMem_Free(buf) iff buf is not BUFFER           *)
(* BUF is a CONSTANT (8192 in the code; 3-4 in MC_Writer so that first     *)
(* growth, further growth and every failure point are reached with short   *)
(* outputs).  At most one allocation fault per run (fault sequences = every *)
(* single failure point).                                                  *)
(***************************************************************************)
EXTENDS Integers, FiniteSets
CONSTANTS BUF, MaxOut, MaxRuns
\* negative configuration: "free the old block when realloc fails" (a plausible leak-fix attempt) -> double free
Dev_FreeOnGrowFail == FALSE
VARIABLES pc, buf, size, pos, todo, liveHeap, freedTwice, freedStatic, faultUsed, outcome, runs, written
vars == <<pc, buf, size, pos, todo, liveHeap, freedTwice, freedStatic, faultUsed, outcome, runs, written>>

Init == /\ pc = "idle" /\ buf = "static" /\ size = BUF /\ pos = 0 /\ todo = 0 /\ liveHeap = 0
        /\ freedTwice = FALSE /\ freedStatic = FALSE /\ faultUsed = FALSE /\ outcome = "none" /\ runs = 0 /\ written = 0
Start == /\ pc = "idle" /\ runs < MaxRuns /\ \E n \in 0..MaxOut : todo' = n
         /\ pc' = "writing" /\ buf' = "static" /\ size' = BUF /\ pos' = 0 /\ outcome' = "none" /\ runs' = runs + 1 /\ written' = 0
         /\ faultUsed' = FALSE
         /\ UNCHANGED <<liveHeap, freedTwice, freedStatic>>
WriteNoGrow == /\ pc = "writing" /\ todo > 0 /\ pos < size
               /\ pos' = pos + 1 /\ todo' = todo - 1 /\ written' = written + 1
               /\ UNCHANGED <<pc, buf, size, liveHeap, freedTwice, freedStatic, faultUsed, outcome, runs>>
GrowFirst == /\ pc = "writing" /\ todo > 0 /\ pos = size /\ buf = "static"
             /\ size' = size + BUF /\ buf' = "heap" /\ liveHeap' = liveHeap + 1
             /\ pos' = pos + 1 /\ todo' = todo - 1 /\ written' = written + 1
             /\ UNCHANGED <<pc, freedTwice, freedStatic, faultUsed, outcome, runs>>
GrowAgain == /\ pc = "writing" /\ todo > 0 /\ pos = size /\ buf = "heap"
             /\ size' = size + BUF
             /\ pos' = pos + 1 /\ todo' = todo - 1 /\ written' = written + 1
             /\ UNCHANGED <<pc, buf, liveHeap, freedTwice, freedStatic, faultUsed, outcome, runs>>
GrowFail == /\ pc = "writing" /\ todo > 0 /\ pos = size /\ ~faultUsed
            /\ faultUsed' = TRUE /\ pc' = "releasing" /\ outcome' = "MemoryError"
            /\ liveHeap' = IF Dev_FreeOnGrowFail /\ buf = "heap" THEN liveHeap - 1 ELSE liveHeap
            /\ UNCHANGED <<buf, size, pos, todo, freedTwice, freedStatic, runs, written>>
FinishOk == /\ pc = "writing" /\ todo = 0 /\ pc' = "releasing" /\ outcome' = "result"
            /\ UNCHANGED <<buf, size, pos, todo, liveHeap, freedTwice, freedStatic, faultUsed, runs, written>>
FinishFail == /\ pc = "writing" /\ todo = 0 /\ ~faultUsed /\ faultUsed' = TRUE
              /\ pc' = "releasing" /\ outcome' = "MemoryError"
              /\ UNCHANGED <<buf, size, pos, todo, liveHeap, freedTwice, freedStatic, runs, written>>
Release == /\ pc = "releasing"
           /\ IF buf = "heap" THEN /\ liveHeap' = liveHeap - 1 /\ freedTwice' = (liveHeap = 0) /\ UNCHANGED freedStatic
                              ELSE UNCHANGED <<liveHeap, freedTwice, freedStatic>>
           /\ pc' = "idle" /\ buf' = "static" /\ size' = BUF /\ pos' = 0
           /\ UNCHANGED <<todo, faultUsed, outcome, runs, written>>
Next == Start \/ WriteNoGrow \/ GrowFirst \/ GrowAgain \/ GrowFail \/ FinishOk \/ FinishFail \/ Release
Spec == Init /\ [][Next]_vars

TypeOK == /\ pc \in {"idle", "writing", "releasing"} /\ buf \in {"static", "heap"} /\ outcome \in {"none", "result", "MemoryError"}
          /\ size >= BUF /\ pos >= 0 /\ todo >= 0 /\ liveHeap >= 0
\* the writer never writes outside its buffer
Inv_InBounds == pos <= size
\* the static buffer has the static size and owns no heap block; a heap buffer is exactly one live block
Inv_Ownership == (buf = "static" => size = BUF /\ liveHeap = 0) /\ (buf = "heap" => liveHeap = 1 /\ size > BUF)
\* nothing is leaked, the static buffer is never freed, no block is freed twice -- on every path incl. every fault
Inv_NoLeakAtIdle == pc = "idle" => (liveHeap = 0 /\ buf = "static" /\ pos = 0)
Inv_NoBadFree == ~freedStatic /\ ~freedTwice
\* a completed run wrote exactly its output
Inv_ResultComplete == (pc = "releasing" /\ outcome = "result") => (todo = 0 /\ written = pos)
\* after a failed run the next run starts from a clean writer and can complete (checked by reachability of "result")
Inv_MemoryErrorOnlyOnFault == outcome = "MemoryError" => faultUsed
\* number of allocation points (grow steps + the final decode) a run producing n characters passes
AllocPoints(n) == (IF n <= BUF THEN 0 ELSE ((n - 1) \div BUF)) + 1

\* ---------------------------------------------------------------- inductive invariant (checked unbounded by Apalache:
\* spec/MC_WriterInd.tla, BUF = 8192, outputs up to 10^6; Init => IndInv and IndInv /\ Next => IndInv')
IndInv == /\ TypeOK
          /\ pos <= size /\ (pc # "idle" => written = pos) /\ runs >= 0 /\ runs <= MaxRuns /\ written >= 0
          /\ (buf = "static" => size = BUF /\ liveHeap = 0)
          /\ (buf = "heap" => liveHeap = 1 /\ size > BUF)
          /\ (pc = "idle" => buf = "static" /\ liveHeap = 0 /\ pos = 0)
          /\ ~freedStatic /\ ~freedTwice
          /\ (outcome = "MemoryError" => faultUsed)
          /\ (pc = "writing" => outcome = "none")
          /\ ((pc = "releasing" /\ outcome = "result") => todo = 0)
\* an assigning initial predicate for the inductive step: every variable from its type domain, constrained by IndInv
IndInit == /\ pc \in {"idle", "writing", "releasing"} /\ buf \in {"static", "heap"} /\ outcome \in {"none", "result", "MemoryError"}
           /\ size \in Int /\ pos \in Int /\ todo \in Int /\ liveHeap \in Int /\ runs \in Int /\ written \in Int
           /\ freedStatic \in BOOLEAN /\ freedTwice \in BOOLEAN /\ faultUsed \in BOOLEAN
           /\ IndInv
=============================================================================
