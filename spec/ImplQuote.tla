----------------------------- MODULE ImplQuote -----------------------------
(***************************************************************************)
(* LEVEL I -- what yarl's two quoters and two unquoters compute, as closed *)
(* (recursive) forms shaped like the code:                                 *)
(*    _quoting_c.pyx  _Quoter._do_quote_or_skip/_do_quote/_write/_write_utf8*)
(*    _quoting_py.py  _Quoter.__call__                                     *)
(*    _Unquoter.__call__ / _do_unquote  (both back ends share this form)   *)
(* The step machines QuoterPy.tla / QuoterC.tla are checked by TLC to      *)
(* terminate with these closed forms.  Deviations from the contracts that  *)
(* the code is known to have are named Dev_* and can be switched off by a  *)
(* cfg override  (Dev_X <- Off).                                           *)
(***************************************************************************)
EXTENDS Text

Off == FALSE
On  == TRUE
\* compiled quoter: a dropped lone surrogate did not set writer.changed, so a string whose only
\* defect is a lone surrogate was returned unchanged           (_write_utf8 "surogate pair, ignored")
\* FIXED in /repo (fix: commit 0cdd62a) -> Off; negative configurations switch it On again.
Dev_CQuoterSurrogateSilent == Off
\* pure-Python quoter: surrogates are dropped BEFORE scanning (encode(errors="ignore")), so
\* '%' + surrogate + two hex digits is read as an escape; the compiled one sees '%' + non-hex
Dev_PyQuoterDropsSurrogatesFirst == On

\* ------------------------------------------------------------ configuration
SubNoQs  == {33, 36, 39, 40, 41, 42, 44}                    \* ! $ ' ( ) * ,
Allowed  == Unreserved \cup SubNoQs                          \* ALLOWED
QsChars  == {PLUS, AMP, EQ, SEMI}                            \* "+&=;"
Cfg(safe, protected, qs, requote) == [safe |-> safe, protected |-> protected, qs |-> qs, requote |-> requote]
SafeSet(cfg) == Allowed \cup cfg.safe \cup cfg.protected \cup (IF cfg.qs THEN {} ELSE QsChars)

\* yarl/_quoters.py
QUOTER            == Cfg({}, {}, FALSE, FALSE)
REQUOTER          == Cfg({}, {}, FALSE, TRUE)
PATH_QUOTER       == Cfg({AT, COLON}, {SLASH, PLUS}, FALSE, FALSE)
PATH_REQUOTER     == Cfg({AT, COLON}, {SLASH, PLUS}, FALSE, TRUE)
QUERY_QUOTER      == Cfg({QMARK, SLASH, COLON, AT}, {EQ, PLUS, AMP, SEMI}, TRUE, FALSE)
QUERY_REQUOTER    == Cfg({QMARK, SLASH, COLON, AT}, {EQ, PLUS, AMP, SEMI}, TRUE, TRUE)
QUERY_PART_QUOTER == Cfg({QMARK, SLASH, COLON, AT}, {}, TRUE, FALSE)
FRAGMENT_QUOTER   == Cfg({QMARK, SLASH, COLON, AT}, {}, FALSE, FALSE)
FRAGMENT_REQUOTER == Cfg({QMARK, SLASH, COLON, AT}, {}, FALSE, TRUE)
QuoterNames == {"QUOTER", "REQUOTER", "PATH_QUOTER", "PATH_REQUOTER", "QUERY_QUOTER", "QUERY_REQUOTER",
                "QUERY_PART_QUOTER", "FRAGMENT_QUOTER", "FRAGMENT_REQUOTER"}
QuoterCfg(n) ==
  CASE n = "QUOTER" -> QUOTER [] n = "REQUOTER" -> REQUOTER
    [] n = "PATH_QUOTER" -> PATH_QUOTER [] n = "PATH_REQUOTER" -> PATH_REQUOTER
    [] n = "QUERY_QUOTER" -> QUERY_QUOTER [] n = "QUERY_REQUOTER" -> QUERY_REQUOTER
    [] n = "QUERY_PART_QUOTER" -> QUERY_PART_QUOTER
    [] n = "FRAGMENT_QUOTER" -> FRAGMENT_QUOTER [] n = "FRAGMENT_REQUOTER" -> FRAGMENT_REQUOTER

UCfg(ignore, unsafe, qs) == [ignore |-> ignore, unsafe |-> unsafe, qs |-> qs]
UNQUOTER           == UCfg({}, {}, FALSE)
PATH_UNQUOTER      == UCfg({}, {PLUS}, FALSE)
PATH_SAFE_UNQUOTER == UCfg({SLASH, PCT}, {PLUS}, FALSE)
QS_UNQUOTER        == UCfg({}, {}, TRUE)
UnquoterNames == {"UNQUOTER", "PATH_UNQUOTER", "PATH_SAFE_UNQUOTER", "QS_UNQUOTER"}
UnquoterCfg(n) ==
  CASE n = "UNQUOTER" -> UNQUOTER [] n = "PATH_UNQUOTER" -> PATH_UNQUOTER
    [] n = "PATH_SAFE_UNQUOTER" -> PATH_SAFE_UNQUOTER [] n = "QS_UNQUOTER" -> QS_UNQUOTER

\* ------------------------------------------------------------ quoter core
\* _write_utf8: percent-encode every UTF-8 byte of c; a surrogate writes nothing
PctUtf8(c) == LET u == Utf8(c) IN Flat([k \in 1..Len(u) |-> PctEnc(u[k])])
\* _write
WriteOut(cfg, c) == IF cfg.qs /\ c = SPACE THEN <<PLUS>>
                    ELSE IF c < 128 /\ c \in SafeSet(cfg) THEN <<c>>
                    ELSE PctUtf8(c)
WriteChanged(cfg, c) == IF cfg.qs /\ c = SPACE THEN TRUE
                        ELSE IF c < 128 /\ c \in SafeSet(cfg) THEN FALSE
                        ELSE IF IsSurrogate(c) THEN ~Dev_CQuoterSurrogateSilent
                        ELSE TRUE

RECURSIVE QOut(_, _, _)
\* the text _do_quote writes for s[i..]
QOut(cfg, s, i) ==
  IF i > Len(s) THEN <<>>
  ELSE IF s[i] = PCT /\ cfg.requote /\ IsPctAt(s, i) THEN
       LET b == PctByte(s, i) IN
       (IF b < 128 /\ b \in cfg.protected THEN PctEnc(b)
        ELSE IF b < 128 /\ b \in SafeSet(cfg) THEN <<b>>
        ELSE PctEnc(b)) \o QOut(cfg, s, i + 3)
  ELSE WriteOut(cfg, s[i]) \o QOut(cfg, s, i + 1)

RECURSIVE QChanged(_, _, _)
\* writer.changed at the end of _do_quote
QChanged(cfg, s, i) ==
  IF i > Len(s) THEN FALSE
  ELSE IF s[i] = PCT /\ cfg.requote /\ IsPctAt(s, i) THEN
       LET b == PctByte(s, i) IN
       \/ (b < 128 /\ (b \in cfg.protected \/ b \in SafeSet(cfg)))
       \/ s[i + 1] \in 97..102 \/ s[i + 2] \in 97..102
       \/ QChanged(cfg, s, i + 3)
  ELSE WriteChanged(cfg, s[i]) \/ QChanged(cfg, s, i + 1)

\* _do_quote_or_skip: nothing to do when every character is ASCII and in the safe table
AllSafe(cfg, s) == \A k \in 1..Len(s) : s[k] < 128 /\ s[k] \in SafeSet(cfg)

QuoteC(cfg, s) == IF AllSafe(cfg, s) THEN s
                  ELSE IF QChanged(cfg, s, 1) THEN QOut(cfg, s, 1) ELSE s

DropSurrogates(s) == SelectSeq(s, LAMBDA c : ~IsSurrogate(c))
\* the byte machine of _quoting_py on surrogate-free text computes exactly QOut (checked on the step
\* machine QuoterPy.tla); with surrogates the Python version first drops them
\* the inputs on which dropping surrogates first changes the answer (deviation region)
PySurrogateRegion(cfg, s) == Dev_PyQuoterDropsSurrogatesFirst /\ (\E i \in 1..Len(s) : IsSurrogate(s[i]))
                             /\ QOut(cfg, s, 1) # QOut(cfg, DropSurrogates(s), 1)
QuotePy(cfg, s) == IF Dev_PyQuoterDropsSurrogatesFirst THEN QOut(cfg, DropSurrogates(s), 1)
                   ELSE QOut(cfg, s, 1)

\* ---------------------------------------------------------- unquoter core
\* state of an incremental UTF-8 decoder fed the bytes bs (all of them still pending)
Utf8Status(bs) ==
  LET b0 == bs[1]
      need == IF b0 < 128 THEN 1 ELSE IF b0 \in 194..223 THEN 2 ELSE IF b0 \in 224..239 THEN 3
              ELSE IF b0 \in 240..244 THEN 4 ELSE 0
      lo2 == IF b0 = 224 THEN 160 ELSE IF b0 = 240 THEN 144 ELSE 128
      hi2 == IF b0 = 237 THEN 159 ELSE IF b0 = 244 THEN 143 ELSE 191
      okTail == \A k \in 2..Len(bs) : IF k = 2 THEN Cont(bs[k], lo2, hi2) ELSE Cont(bs[k], 128, 191)
  IN IF need = 0 \/ Len(bs) > need \/ ~okTail THEN "bad"
     ELSE IF Len(bs) = need THEN "complete" ELSE "partial"

DefaultQuoterOut(c) == QOut(REQUOTER, <<c>>, 1)            \* self._quoter = _Quoter()
QsQuoterOut(c)      == QOut(Cfg({}, {}, TRUE, TRUE), <<c>>, 1)   \* self._qs_quoter = _Quoter(qs=True)
\* what is appended for a decoded character u
Emit(ucfg, u) == IF ucfg.qs /\ u \in QsChars THEN QsQuoterOut(u)
                 ELSE IF u \in ucfg.unsafe \/ u \in ucfg.ignore THEN DefaultQuoterOut(u)
                 ELSE <<u>>

RECURSIVE UnqFrom(_, _, _, _)
\* buf = pending bytes; their raw text is s[i - 3*Len(buf) .. i-1]
UnqFrom(ucfg, s, i, buf) ==
  LET pendingRaw == Sub(s, i - 3 * Len(buf), i - 1) IN
  IF i > Len(s) THEN pendingRaw
  ELSE IF IsPctAt(s, i) THEN
       LET b   == PctByte(s, i)
           st1 == Utf8Status(buf \o <<b>>) IN
       IF st1 = "complete" THEN Emit(ucfg, Utf8Scalar(buf \o <<b>>, Len(buf) + 1)) \o UnqFrom(ucfg, s, i + 3, <<>>)
       ELSE IF st1 = "partial" THEN UnqFrom(ucfg, s, i + 3, buf \o <<b>>)
       ELSE \* error: flush what was pending verbatim, retry this byte alone
            LET st2 == Utf8Status(<<b>>) IN
            pendingRaw \o
            (IF st2 = "complete" THEN Emit(ucfg, b) \o UnqFrom(ucfg, s, i + 3, <<>>)
             ELSE IF st2 = "partial" THEN UnqFrom(ucfg, s, i + 3, <<b>>)
             ELSE Sub(s, i, i + 2) \o UnqFrom(ucfg, s, i + 3, <<>>))
  ELSE pendingRaw \o
       (IF s[i] = PLUS THEN (IF ~ucfg.qs \/ PLUS \in ucfg.unsafe THEN <<PLUS>> ELSE <<SPACE>>)
        ELSE IF s[i] \in ucfg.unsafe THEN <<PCT>> \o (IF s[i] < 16 THEN <<HexDigit(s[i])>> ELSE <<HexDigit(s[i] \div 16), HexDigit(s[i] % 16)>>)
        ELSE <<s[i]>>)
       \o UnqFrom(ucfg, s, i + 1, <<>>)
Unquote(ucfg, s) == UnqFrom(ucfg, s, 1, <<>>)
=============================================================================
