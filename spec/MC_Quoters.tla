----------------------------- MODULE MC_Quoters -----------------------------
(***************************************************************************)
(* R1 for C01/C02/C03/C04/C05/C06 at transducer level: TLC enumerates      *)
(* every text over an alphabet up to MaxLen (a state is a text; Next       *)
(* appends one item) and checks on each, for all nine quoter and four      *)
(* unquoter configurations, that the implementation-shaped model (Level I, *)
(* ImplQuote) satisfies the contracts (Level A, ContractQuoting).          *)
(* The reachable texts are also dumped (-dump) and replayed on the real    *)
(* classes (R2); see vlib/props.                                           *)
(***************************************************************************)
EXTENDS QuoteClauses, TLC
CONSTANTS MaxLen, Items      \* Items: set of texts (single characters or multi-character tokens); MaxLen: max number of items

\* every character class the transducers distinguish
CharCore == { <<c>> : c \in {37, 50, 53, 70, 102, 52, 49, 47, 43, 65, 122, 32, 233, 8364, 128512, 55296} }
S(str) == str   \* readability only
\* escape / delimiter tokens (multi-character items)
TokenCore == { <<47>>, <<63>>, <<35>>, <<64>>, <<58>>, <<38>>, <<61>>, <<59>>, <<43>>, <<32>>, <<46>>, <<37>>,
               <<34>>, <<60>>, <<92>>, <<123>>, <<127>>, <<0>>, <<97>>, <<90>>,
               <<37,50,70>>, <<37,50,102>>, <<37,50,66>>, <<37,50,53>>, <<37,50,54>>, <<37,51,68>>, <<37,51,66>>,
               <<37,51,65>>, <<37,52,48>>, <<37,50,48>>, <<37,52,49>>, <<37,55,69>>, <<37,50,69>>, <<37,50,101>>,
               <<37,48,48>>, <<37,67,51>>, <<37,65,57>>, <<37,69,50>>, <<37,56,50>>, <<37,65,67>>, <<37,70,70>>,
               <<37,67,48>>, <<37,69,68>>, <<37,65,48>>, <<37,52>>, <<37,71,49>>, <<233>>, <<8364>>, <<128512>> }
\* unquoter tokens: valid / over-long / truncated / surrogate / too-large escape runs
UnqTokens == { <<37,50,70>>, <<37,50,102>>, <<37,50,66>>, <<37,50,53>>, <<37,52,49>>, <<37,50,48>>, <<37,67,51>>,
               <<37,65,57>>, <<37,69,50>>, <<37,56,50>>, <<37,65,67>>, <<37,70,48>>, <<37,57,70>>, <<37,57,56>>,
               <<37,56,48>>, <<37,70,70>>, <<37,67,48>>, <<37,69,68>>, <<37,65,48>>, <<37,69,48>>, <<37,70,52>>,
               <<37,57,48>>, <<37>>, <<37,52>>, <<37,71,49>>, <<97>>, <<43>>, <<47>>, <<32>>, <<233>>,
               <<37,50,54>>, <<37,51,100>> }

VARIABLES s, k          \* the text and the number of items it was built from
Init == s = <<>> /\ k = 0
Next == \E it \in Items : k < MaxLen /\ s' = s \o it /\ k' = k + 1

DevRegion(n) == \/ (HasSurrogate(s) /\ Dev_CQuoterSurrogateSilent)
                \/ PySurrogateRegion(QuoterCfg(n), s)
Py(n) == QuotePy(QuoterCfg(n), s)
C(n)  == QuoteC(QuoterCfg(n), s)

\* C01: both machines write only well-formed text
Inv_C01_Py == \A n \in QuoterNames : QC_WellFormed(n, Py(n))
Inv_C01_C  == \A n \in QuoterNames : (HasSurrogate(s) /\ Dev_CQuoterSurrogateSilent) \/ QC_WellFormed(n, C(n))
\* C02
Inv_C02 == \A n \in QuoterNames : QC_SameMeaning(n, s, Py(n)) /\ QC_SameMeaning(n, s, C(n))
\* C03: requoting is idempotent
Inv_C03 == \A n \in QuoterNames : IsRequoter(n) =>
              /\ QuotePy(QuoterCfg(n), Py(n)) = Py(n)
              /\ (DevRegion(n) \/ QuoteC(QuoterCfg(n), C(n)) = C(n))
\* C04
Inv_C04 == \A n \in QuoterNames : QC_CanonicalKept(n, s, Py(n)) /\ QC_CanonicalKept(n, s, C(n))
\* C05: the two machines agree (outside the named deviation region)
Inv_C05 == \A n \in QuoterNames : DevRegion(n) \/ Py(n) = C(n)
\* C05 with the deviations' region NOT excluded: must be violated while the deviations are on (non-vacuity)
Inv_C05_NoExclusion == \A n \in QuoterNames : Py(n) = C(n)
\* C06 read-back and decode
Inv_C06_ReadBack == \A n \in QuoterNames : QC_ReadBack(n, s, Py(n)) /\ (DevRegion(n) \/ QC_ReadBack(n, s, C(n)))
Inv_C06_Decode   == \A n \in UnquoterNames : UC_IsDecode(n, s, Unquote(UnquoterCfg(n), s))
=============================================================================
