------------------------------- MODULE MC_Cmp -------------------------------
(***************************************************************************)
(* R1 for C10: all pairs and triples from a near-collision family of URL   *)
(* values (one thing changed at a time).  Level I Eq/HashKey/Lt/Le/Gt/Ge   *)
(* (ImplUrl) against the coherence clauses.  With Dev_OrderingOnRawTuple   *)
(* on (the code as written) TLC finds 'http://a' vs 'http://a/': == and <  *)
(* both hold -- the known finding, as a design-level counterexample.       *)
(***************************************************************************)
EXTENDS ContractUrl, ImplUrl, TLC
h == <<104,116,116,112>>
Family == { Url(sc, nl, p, q, f) : sc \in {<<>>, h, <<104,116,116,112,115>>}, nl \in {<<>>, <<97>>, <<97,58,56,48>>, <<98>>},
            p \in {<<>>, <<47>>, <<47,97>>, <<47,65>>, <<47,37,52,49>>}, q \in {<<>>, <<113>>}, f \in {<<>>, <<102>>} }
VARIABLES a, b, c
Init == a \in Family /\ b \in Family /\ c \in {Url(h, <<97>>, <<>>, <<>>, <<>>), Url(h, <<97>>, <<47>>, <<>>, <<>>), Url(h, <<98>>, <<47>>, <<>>, <<>>), Url(<<>>, <<>>, <<47,97>>, <<>>, <<>>)}
Next == UNCHANGED <<a, b, c>>
EqRegion == Eq(a, b) /\ ValTuple(a) # ValTuple(b)
Inv_EqHash == Eq(a, b) <=> HashKey(a) = HashKey(b)
Inv_EqEquivalence == Eq(a, a) /\ (Eq(a, b) = Eq(b, a)) /\ ((Eq(a, b) /\ Eq(b, c)) => Eq(a, c))
Inv_Trichotomy == (Dev_OrderingOnRawTuple /\ EqRegion) \/ Cardinality({x \in {1, 2, 3} : <<Lt(a, b), Eq(a, b), Gt(a, b)>>[x]}) = 1
Inv_Trichotomy_NoExclusion == Cardinality({x \in {1, 2, 3} : <<Lt(a, b), Eq(a, b), Gt(a, b)>>[x]}) = 1
Inv_LeGe == (Dev_OrderingOnRawTuple /\ EqRegion) \/ ((Le(a, b) = (Lt(a, b) \/ Eq(a, b))) /\ (Ge(a, b) = (Gt(a, b) \/ Eq(a, b))))
Inv_LtTransitive == (Lt(a, b) /\ Lt(b, c)) => Lt(a, c)
=============================================================================
