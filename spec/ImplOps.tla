------------------------------ MODULE ImplOps ------------------------------
(***************************************************************************)
(* LEVEL I, part 2 -- the constructors and every modifier of URL as        *)
(* operators on the five-part value, written in source order of the code   *)
(* (yarl/_url.py, yarl/_query.py).  `be` selects the quoting back end       *)
(* ("c" | "py"): the two differ only in the named surrogate deviation.      *)
(* Outcomes:  [ok |-> Url]  |  [exc |-> "ValueError"|"TypeError"]           *)
(*          |  [gray |-> TRUE]  where the result depends on data outside    *)
(*             the model (IDNA tables, int() on non-ASCII digits).          *)
(*                                                                          *)
(*  EncodeUrl        encode_url            PreEncodedUrl   pre_encoded_url   *)
(*  Build            URL.build (+ build_pre_encoded_url)                     *)
(*  GetStrQuery      _query.get_str_query / _from_iterable / _sequence_...   *)
(*  WithScheme .. WithSuffix, MakeChild, Parent, Origin, Relative,           *)
(*  WithQuery, ExtendQuery   the methods of the same names                   *)
(*  Apply            dispatch on the recorded action name                    *)
(***************************************************************************)
EXTENDS ImplUrl, ContractQuoting

IsGray(r) == "gray" \in DOMAIN r
GRAY == [gray |-> TRUE]
Q(be, cfg, t) == IF be = "py" THEN QuotePy(cfg, t) ELSE QuoteC(cfg, t)
RequiresHost == { <<104,116,116,112>>, <<104,116,116,112,115>>, <<119,115>>, <<119,115,115>>, <<102,116,112>> }
OptPortText(p) == IF IsNone(p) THEN NONE ELSE SOME(NatText(Get(p)))

\* ------------------------------------------------------------- encode_url
EncodeUrl(be, s) ==
  LET sp == SplitUrl(s) IN
  IF ~IsOK(sp) THEN sp
  ELSE LET u == sp.ok
           complex == HasAny(u.netloc, {COLON, AT, LBR})
           parts == IF u.netloc = <<>> THEN OK([user |-> NONE, password |-> NONE, host |-> NONE, port |-> NONE])
                    ELSE IF complex THEN SplitNetloc(u.netloc)
                    ELSE OK([user |-> NONE, password |-> NONE, host |-> SOME(u.netloc), port |-> NONE]) IN
       IF IsGray(parts) THEN GRAY
       ELSE IF ~IsOK(parts) THEN parts
       ELSE LET p == parts.ok
                needHost == u.netloc # <<>> /\ IsNone(p.host) /\ u.scheme \in RequiresHost
                eh == IF u.netloc = <<>> THEN OK(<<>>) ELSE EncodeHost(IF IsNone(p.host) THEN <<>> ELSE Get(p.host), FALSE) IN
            IF needHost THEN EXC("ValueError")
            ELSE IF IsGray(eh) THEN GRAY
            ELSE IF ~IsOK(eh) THEN eh
            ELSE LET host == eh.ok
                     netloc == IF u.netloc = <<>> THEN <<>>
                               ELSE IF IsNone(p.user) /\ IsNone(p.password)
                                    THEN host \o (IF IsNone(p.port) THEN <<>> ELSE <<COLON>> \o NatText(Get(p.port)))
                               ELSE LET ru == IF ~IsNone(p.user) /\ Get(p.user) # <<>> THEN SOME(Q(be, REQUOTER, Get(p.user))) ELSE p.user
                                        rp == IF ~IsNone(p.password) /\ Get(p.password) # <<>> THEN SOME(Q(be, REQUOTER, Get(p.password))) ELSE p.password
                                    IN MakeNetloc(ru, rp, SOME(host), OptPortText(p.port), FALSE)
                     path0 == IF u.path # <<>> THEN Q(be, PATH_REQUOTER, u.path) ELSE u.path
                     path == IF u.path # <<>> /\ netloc # <<>> /\ Has(path0, DOT) THEN NormalizePath(path0) ELSE path0
                     query == IF u.query # <<>> THEN Q(be, QUERY_REQUOTER, u.query) ELSE u.query
                     frag == IF u.fragment # <<>> THEN Q(be, FRAGMENT_REQUOTER, u.fragment) ELSE u.fragment
                 IN OK(Url(u.scheme, netloc, path, query, frag))
\* the entries encode_url PRE-FILLS in the new object's cache (the eager route); every other constructor leaves the cache
\* empty and the same entries are derived later by _cache_netloc -> split_netloc(self._netloc) (the lazy route)
EagerCache(be, s) ==
  LET sp == SplitUrl(s) IN
  IF ~IsOK(sp) \/ sp.ok.netloc = <<>> THEN [none |-> TRUE]
  ELSE LET u == sp.ok
           complex == HasAny(u.netloc, {COLON, AT, LBR})
           parts == IF complex THEN SplitNetloc(u.netloc) ELSE OK([user |-> NONE, password |-> NONE, host |-> SOME(u.netloc), port |-> NONE]) IN
       IF ~IsOK(parts) THEN [none |-> TRUE]
       ELSE LET p == parts.ok
                eh == EncodeHost(IF IsNone(p.host) THEN <<>> ELSE Get(p.host), FALSE) IN
            IF ~IsOK(eh) \/ (IsNone(p.host) /\ u.scheme \in RequiresHost) THEN [none |-> TRUE]
            ELSE [raw_host |-> SOME(IF Has(eh.ok, LBR) THEN SubSeq(eh.ok, 2, Len(eh.ok) - 1) ELSE eh.ok),     \* '' for an empty host
                  explicit_port |-> p.port,
                  raw_user |-> IF IsNone(p.user) /\ IsNone(p.password) THEN NONE
                               \* (REQUOTER(username) or None: a user that quoting empties -- a lone surrogate -- is None, fix d62e432)
                               ELSE IF ~IsNone(p.user) /\ Get(p.user) # <<>>
                                    THEN (LET q == Q(be, REQUOTER, Get(p.user)) IN IF q = <<>> THEN NONE ELSE SOME(q)) ELSE p.user,
                  raw_password |-> IF ~IsNone(p.password) /\ Get(p.password) # <<>> THEN SOME(Q(be, REQUOTER, Get(p.password))) ELSE p.password]
PreEncodedUrl(s) == SplitUrl(s)
Ctor(be, s, encoded) == IF encoded THEN PreEncodedUrl(s) ELSE EncodeUrl(be, s)

\* --------------------------------------------------------------- _query.py
\* typed values as recorded: [t |-> "str"|"int"|"float"|"bool"|"none"|"bytes"|"list"|"tuple", s |-> text, items |-> ...]
NonFiniteTxt == { <<110,97,110>>, <<105,110,102>>, <<45,105,110,102>> }
QueryVar(tv) ==          \* query_var: text of a simple value, or the exception
  IF tv.t \in {"str", "int"} THEN OK(tv.s)
  ELSE IF tv.t = "float" THEN (IF tv.s \in NonFiniteTxt THEN EXC("ValueError") ELSE OK(tv.s))
  ELSE EXC("TypeError")
PairText(be, k, v) == Q(be, QUERY_PART_QUOTER, k) \o <<EQ>> \o Q(be, QUERY_PART_QUOTER, v)
\* pairs: sequence of <<key text, typed value>>; expand: list/tuple values expand (mappings) or are an error (pair lists)
RECURSIVE PairsText(_, _, _, _)
PairsText(be, pairs, i, expand) ==
  IF i > Len(pairs) THEN OK(<<>>)
  ELSE LET k == pairs[i][1] tv == pairs[i][2]
           vals == IF expand /\ tv.t \in {"list", "tuple"} THEN tv.items ELSE <<tv>>
           bad == {j \in 1..Len(vals) : ~IsOK(QueryVar(vals[j]))}
           rest == PairsText(be, pairs, i + 1, expand) IN
       IF bad # {} THEN QueryVar(vals[CHOOSE j \in bad : \A j2 \in bad : j <= j2])
       ELSE IF ~IsOK(rest) THEN rest
       ELSE OK([j \in 1..Len(vals) |-> PairText(be, k, QueryVar(vals[j]).ok)] \o rest.ok)
\* get_str_query: OK(option of text) -- NONE stands for Python's None
GetStrQuery(be, q) ==
  IF q.form = "none" THEN OK(NONE)
  ELSE IF q.form = "str" THEN OK(SOME(IF q.s = <<>> THEN <<>> ELSE Q(be, QUERY_QUOTER, q.s)))
  ELSE IF q.pairs = <<>> THEN OK(SOME(<<>>))
  ELSE LET r == PairsText(be, q.pairs, 1, q.form \in {"mapping", "multidict", "kwargs"}) IN
       IF IsOK(r) THEN OK(SOME(JoinWith(r.ok, AMP))) ELSE r
QueryTruthy(q) == q.form # "none" /\ (IF q.form = "str" THEN q.s # <<>> ELSE q.pairs # <<>>)

\* --------------------------------------------------------------- URL.build
TypedPort(tv) ==          \* port argument -> OK(option of int) | exception
  IF tv.t = "none" THEN OK(NONE)
  ELSE IF tv.t # "int" THEN EXC("TypeError")
  ELSE IF tv.s[1] = 45 \/ Len(tv.s) > 5 \/ DigitsVal(tv.s) > 65535 THEN EXC("ValueError")
  ELSE OK(SOME(DigitsVal(tv.s)))
Field(kw, f, default) == IF f \in DOMAIN kw THEN kw[f] ELSE default
Build(be, kw) ==
  LET scheme0 == Field(kw, "scheme", <<>>)
      authority == Field(kw, "authority", <<>>)
      user == Field(kw, "user", NONE)
      password == Field(kw, "password", NONE)
      host == Field(kw, "host", <<>>)
      portR == IF "port" \in DOMAIN kw THEN TypedPort(kw.port) ELSE OK(NONE)
      portTruthy == IsOK(portR) /\ ~IsNone(portR.ok) /\ Get(portR.ok) # 0
      path0 == Field(kw, "path", <<>>)
      qs0 == Field(kw, "query_string", <<>>)
      frag0 == Field(kw, "fragment", <<>>)
      hasQ == "query" \in DOMAIN kw /\ QueryTruthy(kw.query)
      truthy(o) == ~IsNone(o) /\ Get(o) # <<>>
  IN
  \* gates, in source order
  IF authority # <<>> /\ (truthy(user) \/ truthy(password) \/ host # <<>> \/ ("port" \in DOMAIN kw /\ kw.port.t = "int" /\ kw.port.s # <<48>>)
                         \/ ("port" \in DOMAIN kw /\ kw.port.t \notin {"int", "none"} /\ kw.port.s \notin {<<70,97,108,115,101>>, <<48,46,48>>}))
     THEN EXC("ValueError")
  ELSE IF ~IsOK(portR) THEN portR
  ELSE IF portTruthy /\ host = <<>> THEN EXC("ValueError")
  ELSE IF hasQ /\ qs0 # <<>> THEN EXC("ValueError")
  ELSE LET gq == IF hasQ THEN GetStrQuery(be, kw.query) ELSE OK(NONE) IN
  IF ~IsOK(gq) THEN gq
  ELSE LET qs1 == IF hasQ THEN (IF IsNone(gq.ok) THEN <<>> ELSE Get(gq.ok)) ELSE qs0
           scheme == LowerS(scheme0) IN
  IF "encoded" \in DOMAIN kw THEN
       \* build_pre_encoded_url (the scheme is taken as given)
       LET port1 == IF ~IsNone(portR.ok) /\ portR.ok = DefaultPortOf(scheme0) THEN NONE ELSE portR.ok
           netloc == IF authority # <<>> THEN authority
                     ELSE IF host # <<>> THEN
                          (IF IsNone(user) /\ IsNone(password) THEN host \o (IF IsNone(port1) THEN <<>> ELSE <<COLON>> \o NatText(Get(port1)))
                           ELSE MakeNetloc(user, password, SOME(host), OptPortText(port1), FALSE))
                     ELSE <<>> IN
       OK(Url(scheme0, netloc, path0, qs1, frag0))
  ELSE
  LET an == IF authority # <<>> THEN SplitNetloc(authority) ELSE OK([user |-> user, password |-> password, host |-> NONE, port |-> portR.ok]) IN
  IF IsGray(an) THEN GRAY ELSE IF ~IsOK(an) THEN an
  ELSE LET a == an.ok
           hostR == IF authority # <<>> THEN (IF IsNone(a.host) THEN OK(SOME(<<>>)) ELSE LET e == EncodeHost(Get(a.host), FALSE) IN IF IsOK(e) THEN OK(SOME(e.ok)) ELSE e)
                    ELSE IF host # <<>> THEN (LET e == EncodeHost(host, TRUE) IN IF IsOK(e) THEN OK(SOME(e.ok)) ELSE e)
                    ELSE OK(NONE) IN
  IF IsGray(hostR) THEN GRAY ELSE IF ~IsOK(hostR) THEN hostR
  ELSE LET h == hostR.ok
           port1 == IF ~IsNone(a.port) /\ a.port = DefaultPortOf(scheme) THEN NONE ELSE a.port
           netloc == IF IsNone(h) THEN <<>>
                     ELSE IF IsNone(a.user) /\ IsNone(a.password) THEN Get(h) \o (IF IsNone(port1) THEN <<>> ELSE <<COLON>> \o NatText(Get(port1)))
                     ELSE MakeNetloc(a.user, a.password, h, OptPortText(port1), TRUE)
           pq == IF path0 # <<>> THEN Q(be, PATH_QUOTER, path0) ELSE path0
           pn == IF pq # <<>> /\ netloc # <<>> /\ Has(pq, DOT) THEN NormalizePath(pq) ELSE pq
           qs2 == IF ~hasQ /\ qs1 # <<>> THEN Q(be, QUERY_QUOTER, qs1) ELSE qs1
           fr == IF frag0 # <<>> THEN Q(be, FRAGMENT_QUOTER, frag0) ELSE frag0 IN
       IF pq # <<>> /\ netloc # <<>> /\ (pn = <<>> \/ pn[1] # SLASH) THEN EXC("ValueError")
       ELSE OK(Url(scheme, netloc, pn, qs2, fr))

\* --------------------------------------------------------------- modifiers
EncodedHostOr(u) == LET hs == HostSubcomponent(u) IN IF IsNone(hs.ok) THEN <<>> ELSE Get(hs.ok)    \* self.host_subcomponent or ""
NetlocReadable(u) == IsOK(NetlocParts(u))
WithScheme(u, v) ==
  LET low == LowerS(v) IN
  IF u.netloc = <<>> /\ low \in RequiresHost THEN EXC("ValueError") ELSE OK(Url(low, u.netloc, u.path, u.query, u.fragment))
WithUser(be, u, v) ==           \* v: option of text
  IF u.netloc = <<>> THEN EXC("ValueError")
  ELSE IF ~NetlocReadable(u) THEN NetlocParts(u)
  ELSE LET user == IF IsNone(v) THEN NONE ELSE SOME(Q(be, QUOTER, Get(v)))
           pw == IF IsNone(v) THEN NONE ELSE RawPassword(u).ok IN
       OK(Url(u.scheme, MakeNetloc(user, pw, SOME(EncodedHostOr(u)), OptPortText(ExplicitPort(u).ok), FALSE), u.path, u.query, u.fragment))
WithPassword(be, u, v) ==
  IF u.netloc = <<>> THEN EXC("ValueError")
  ELSE IF ~NetlocReadable(u) THEN NetlocParts(u)
  ELSE LET pw == IF IsNone(v) THEN NONE ELSE SOME(Q(be, QUOTER, Get(v))) IN
       OK(Url(u.scheme, MakeNetloc(RawUser(u).ok, pw, SOME(EncodedHostOr(u)), OptPortText(ExplicitPort(u).ok), FALSE), u.path, u.query, u.fragment))
WithHost(u, v) ==
  IF u.netloc = <<>> THEN EXC("ValueError")
  ELSE IF v = <<>> THEN EXC("ValueError")
  ELSE LET e == EncodeHost(v, TRUE) IN
       IF IsGray(e) THEN GRAY ELSE IF ~IsOK(e) THEN e
       ELSE IF ~NetlocReadable(u) THEN NetlocParts(u)
       ELSE OK(Url(u.scheme, MakeNetloc(RawUser(u).ok, RawPassword(u).ok, SOME(e.ok), OptPortText(ExplicitPort(u).ok), FALSE), u.path, u.query, u.fragment))
WithPort(u, tv) ==
  LET p == IF tv.t = "bool" THEN EXC("TypeError") ELSE TypedPort(tv) IN
  IF ~IsOK(p) THEN p
  ELSE IF u.netloc = <<>> THEN EXC("ValueError")
  ELSE IF ~NetlocReadable(u) THEN NetlocParts(u)
  ELSE OK(Url(u.scheme, MakeNetloc(RawUser(u).ok, RawPassword(u).ok, SOME(EncodedHostOr(u)), OptPortText(p.ok), FALSE), u.path, u.query, u.fragment))
WithFragment(be, u, v) ==
  OK(Url(u.scheme, u.netloc, u.path, u.query, IF IsNone(v) THEN <<>> ELSE Q(be, FRAGMENT_QUOTER, Get(v))))
WithPath(be, u, v, encoded, keepQ, keepF) ==
  LET p0 == IF encoded THEN v ELSE Q(be, PATH_QUOTER, v)
      p1 == IF p0 # <<>> /\ p0[1] # SLASH THEN <<SLASH>> \o p0 ELSE p0
      p2 == IF ~encoded /\ u.netloc # <<>> /\ Has(p1, DOT) THEN NormalizePath(p1) ELSE p1 IN
  OK(Url(u.scheme, u.netloc, p2, IF keepQ THEN u.query ELSE <<>>, IF keepF THEN u.fragment ELSE <<>>))
\* raw_parts
RawParts(u) ==
  IF u.netloc # <<>> THEN (IF u.path # <<>> THEN << <<SLASH>> >> \o Split(Tail(u.path), SLASH) ELSE << <<SLASH>> >>)
  ELSE IF u.path # <<>> /\ u.path[1] = SLASH THEN << <<SLASH>> >> \o Split(Tail(u.path), SLASH)
  ELSE Split(u.path, SLASH)
RawName(u) == LET ps == RawParts(u) IN
  IF u.netloc = <<>> THEN Last(ps) ELSE IF Len(ps) > 1 THEN Last(ps) ELSE <<>>
RawSuffix(u) == LET n == RawName(u) i == RFind(n, DOT) IN IF i > 1 /\ i < Len(n) THEN From(n, i) ELSE <<>>
WithName(be, u, v, keepQ, keepF) ==
  IF Has(v, SLASH) THEN EXC("ValueError")
  ELSE LET name == Q(be, PATH_QUOTER, v) IN
  IF name \in {<<DOT>>, <<DOT, DOT>>} THEN EXC("ValueError")
  ELSE LET ps == RawParts(u)
           ps2 == IF u.netloc # <<>> THEN (IF Len(ps) = 1 THEN <<<<>>, name>> ELSE <<<<>>>> \o SubSeq(ps, 2, Len(ps) - 1) \o <<name>>)
                  ELSE LET q == Front(ps) \o <<name>> IN IF q[1] = <<SLASH>> THEN <<<<>>>> \o Tail(q) ELSE q IN
       OK(Url(u.scheme, u.netloc, JoinWith(ps2, SLASH), IF keepQ THEN u.query ELSE <<>>, IF keepF THEN u.fragment ELSE <<>>))
\* Dev_WithSuffixRequotesRawName: the RAW name is passed through with_name(), which quotes it again
WithSuffix(be, u, v, keepQ, keepF) ==
  IF (v # <<>> /\ v[1] # DOT) \/ v = <<DOT>> THEN EXC("ValueError")
  ELSE LET name == RawName(u) IN
  IF name = <<>> THEN EXC("ValueError")
  ELSE LET old == RawSuffix(u)
           nn == IF old = <<>> THEN name \o v ELSE Upto(name, Len(name) - Len(old)) \o v IN
       WithName(be, u, nn, keepQ, keepF)
\* _make_child (forward formulation of the reversed-list code)
MakeChild(be, u, paths, encoded) ==
  IF \E i \in 1..Len(paths) : paths[i] # <<>> /\ paths[i][1] = SLASH THEN EXC("ValueError")
  ELSE LET qp == [i \in 1..Len(paths) |-> IF encoded THEN paths[i] ELSE Q(be, PATH_QUOTER, paths[i])]
           needsNorm == \E i \in 1..Len(qp) : Has(qp[i], DOT)
           newSegs == Flat([i \in 1..Len(qp) |-> LET sg == Split(qp[i], SLASH) IN IF i < Len(qp) /\ Last(sg) = <<>> THEN Front(sg) ELSE sg])
           oldAll == IF u.path # <<>> THEN Split(u.path, SLASH) ELSE <<>>
           old == IF oldAll # <<>> /\ Last(oldAll) = <<>> THEN Front(oldAll) ELSE oldAll
           segs0 == old \o newSegs
           segs == IF u.netloc # <<>> /\ segs0 # <<>> /\ segs0[1] # <<>> THEN <<<<>>>> \o segs0 ELSE segs0 IN
       IF u.netloc = <<>> \/ ~needsNorm THEN OK(Url(u.scheme, u.netloc, JoinWith(segs, SLASH), <<>>, <<>>))
       ELSE LET p == JoinWith(NormalizePathSegments(segs), SLASH) IN
            OK(Url(u.scheme, u.netloc, IF p # <<>> /\ p[1] # SLASH THEN <<SLASH>> \o p ELSE p, <<>>, <<>>))
Parent(u) ==
  IF u.path = <<>> \/ u.path = <<SLASH>> THEN OK(Url(u.scheme, u.netloc, u.path, <<>>, <<>>))
  ELSE LET pp == JoinWith(Front(Split(u.path, SLASH)), SLASH)
           pp2 == IF pp # <<>> THEN pp ELSE IF u.path[1] = SLASH /\ u.netloc = <<>> THEN <<SLASH>> ELSE <<>> IN
       OK(Url(u.scheme, u.netloc, pp2, <<>>, <<>>))
Origin(u) ==
  IF u.netloc = <<>> THEN EXC("ValueError") ELSE IF u.scheme = <<>> THEN EXC("ValueError")
  ELSE IF Has(u.netloc, AT) THEN
       (IF ~NetlocReadable(u) THEN NetlocParts(u)
        ELSE OK(Url(u.scheme, MakeNetloc(NONE, NONE, HostSubcomponent(u).ok, OptPortText(ExplicitPort(u).ok), FALSE), <<>>, <<>>, <<>>)))
  ELSE OK(Url(u.scheme, u.netloc, <<>>, <<>>, <<>>))
Relative(u) == IF u.netloc = <<>> THEN EXC("ValueError") ELSE OK(Url(<<>>, <<>>, u.path, u.query, u.fragment))
WithQuery(be, u, q) ==
  IF q.form = "kwargs" /\ q.pairs = <<>> THEN EXC("ValueError")
  ELSE LET g == GetStrQuery(be, q) IN
  IF ~IsOK(g) THEN g ELSE OK(Url(u.scheme, u.netloc, u.path, IF IsNone(g.ok) THEN <<>> ELSE Get(g.ok), u.fragment))
ExtendQuery(be, u, q) ==
  IF q.form = "kwargs" /\ q.pairs = <<>> THEN EXC("ValueError")
  ELSE LET g == GetStrQuery(be, q) IN
  IF ~IsOK(g) THEN g
  ELSE IF IsNone(g.ok) \/ Get(g.ok) = <<>> THEN OK(u)
  ELSE LET nq == Get(g.ok)
           qq == IF u.query # <<>> THEN (IF Last(u.query) = AMP THEN u.query \o nq ELSE u.query \o <<AMP>> \o nq) ELSE nq IN
       OK(Url(u.scheme, u.netloc, u.path, qq, u.fragment))

\* ------------------------------------------------------------- update_query / without_query_params
\* parse_qsl(query, keep_blank_values=True): for well-formed escape runs it is the Level A QueryPairs; a run that is not
\* valid UTF-8 is decoded with U+FFFD replacement (Dev_QueryDecodeReplaces), which is outside the model: gray
RECURSIVE BadRun(_, _)
BadRun(t, i) == IF i > Len(t) THEN FALSE
                ELSE IF IsPctAt(t, i) THEN (LET n == Utf8Len(EscRun(t, i, 4)) IN IF n = 0 THEN TRUE ELSE BadRun(t, i + 3 * n))
                ELSE BadRun(t, i + 1)
ParseQsl(query) == IF BadRun(query, 1) THEN GRAY ELSE OK(QueryPairs(query))
\* ... and what parse_qsl actually returns for such runs (urllib.parse.unquote(errors="replace")): the ASCII chunk is turned
\* into bytes (escapes decoded, literals as themselves) and decoded as UTF-8 where every maximal ill-formed subsequence
\* becomes ONE U+FFFD.  Used only to attribute C06.query rejections to Dev_QueryDecodeReplaces exactly.
RECURSIVE ToBytes(_, _)
ToBytes(t, i) == IF i > Len(t) THEN <<>>
                 ELSE IF IsPctAt(t, i) THEN <<PctByte(t, i)>> \o ToBytes(t, i + 3)
                 ELSE <<IF t[i] >= 128 THEN 1000000 + t[i] ELSE t[i]>> \o ToBytes(t, i + 1)   \* literal non-ASCII: tagged, ends a chunk
RECURSIVE DecodeReplace(_, _)
DecodeReplace(bs, i) ==
  IF i > Len(bs) THEN <<>>
  ELSE IF bs[i] >= 1000000 THEN <<bs[i] - 1000000>> \o DecodeReplace(bs, i + 1)   \* a literal non-ASCII character
  ELSE LET rest == SubSeq(bs, i, Min2(Len(bs), i + 3))
           clean == LET j == CHOOSE j \in 0..Len(rest) : (j = Len(rest) \/ rest[j + 1] >= 1000000) /\ \A k \in 1..j : rest[k] < 1000000 IN SubSeq(rest, 1, j)
           n == Utf8Len(clean) IN
       IF n > 0 THEN <<Utf8Scalar(clean, n)>> \o DecodeReplace(bs, i + n)
       ELSE LET ks == {j \in 1..Len(clean) : Utf8Status(SubSeq(clean, 1, j)) = "partial"}
                k == IF ks = {} THEN 1 ELSE CHOOSE j \in ks : \A j2 \in ks : j2 <= j IN
            <<65533>> \o DecodeReplace(bs, i + k)
UnquoteReplace(t) == DecodeReplace(ToBytes([i \in 1..Len(t) |-> IF t[i] = PLUS THEN SPACE ELSE t[i]], 1), 1)
QueryPairsReplace(raw) ==
  LET pieces == SelectSeq(Split(raw, AMP), LAMBDA p : p # <<>>) IN
  [i \in 1..Len(pieces) |-> LET pr == Partition(pieces[i], EQ) IN <<UnquoteReplace(pr[1]), UnquoteReplace(pr[3])>>]
StrTv(t) == [t |-> "str", s |-> t]
UpdateQueryWith(dev, be, u, q) ==
  IF q.form = "kwargs" /\ q.pairs = <<>> THEN EXC("ValueError")
  ELSE IF q.form = "none" THEN OK(Url(u.scheme, u.netloc, u.path, <<>>, u.fragment))
  ELSE IF ~QueryTruthy(q) THEN OK(u)
  ELSE LET old == ParseQsl(u.query) IN
  IF IsGray(old) THEN GRAY
  ELSE LET oldTv == [i \in 1..Len(old.ok) |-> <<old.ok[i][1], StrTv(old.ok[i][2])>>] IN
  IF q.form = "str" THEN
       (LET new == ParseQsl(q.s) IN
        IF IsGray(new) THEN GRAY
        ELSE LET newTv == [i \in 1..Len(new.ok) |-> <<new.ok[i][1], StrTv(new.ok[i][2])>>]
                 r == PairsText(be, UpdatePairsSeqWith(dev, oldTv, newTv), 1, FALSE) IN
             IF IsOK(r) THEN OK(Url(u.scheme, u.netloc, u.path, JoinWith(r.ok, AMP), u.fragment)) ELSE r)
  ELSE LET merged == UpdatePairsSeqWith(dev, oldTv, q.pairs)
           r == PairsText(be, merged, 1, q.form \in {"mapping", "multidict", "kwargs"}) IN
       IF IsOK(r) THEN OK(Url(u.scheme, u.netloc, u.path, JoinWith(r.ok, AMP), u.fragment)) ELSE r
UpdateQuery(be, u, q) == UpdateQueryWith(Dev_MultiDictUpdateIndexShift, be, u, q)
WithoutQueryParams(be, u, keys) ==
  LET old == ParseQsl(u.query) IN
  IF IsGray(old) THEN GRAY
  ELSE IF \A i \in 1..Len(old.ok) : old.ok[i][1] \notin Range(keys) THEN OK(u)
  ELSE LET kept == SelectSeq(old.ok, LAMBDA p : p[1] \notin Range(keys))
           r == PairsText(be, [i \in 1..Len(kept) |-> <<kept[i][1], StrTv(kept[i][2])>>], 1, FALSE) IN
       OK(Url(u.scheme, u.netloc, u.path, JoinWith(r.ok, AMP), u.fragment))

\* ------------------------------------------------------- dispatch on a recorded step
\* (self: the receiver's five parts; other: the reference's five parts for join)
Modelled == {"ctor", "build", "with_scheme", "with_user", "with_password", "with_host", "with_port", "with_fragment", "with_path",
             "with_name", "with_suffix", "truediv", "joinpath", "parent", "origin", "relative", "with_query", "extend_query", "update_query", "without_query_params", "join"}
Apply(be, act, args, self, other) ==
  CASE act = "ctor" -> Ctor(be, args.s, args.encoded)
    [] act = "build" -> Build(be, args.kw)
    [] act = "with_scheme" -> WithScheme(self, args.v)
    [] act = "with_user" -> WithUser(be, self, args.v)
    [] act = "with_password" -> WithPassword(be, self, args.v)
    [] act = "with_host" -> WithHost(self, args.v)
    [] act = "with_port" -> WithPort(self, args.v)
    [] act = "with_fragment" -> WithFragment(be, self, args.v)
    [] act = "with_path" -> WithPath(be, self, args.v, args.encoded, args.keep_query, args.keep_fragment)
    [] act = "with_name" -> WithName(be, self, args.v, args.keep_query, args.keep_fragment)
    [] act = "with_suffix" -> WithSuffix(be, self, args.v, args.keep_query, args.keep_fragment)
    [] act = "truediv" -> MakeChild(be, self, <<args.v>>, FALSE)
    [] act = "joinpath" -> MakeChild(be, self, args.vs, args.encoded)
    [] act = "parent" -> Parent(self)
    [] act = "origin" -> Origin(self)
    [] act = "relative" -> Relative(self)
    [] act = "with_query" -> WithQuery(be, self, args.q)
    [] act = "extend_query" -> ExtendQuery(be, self, args.q)
    [] act = "update_query" -> UpdateQuery(be, self, args.q)
    [] act = "without_query_params" -> WithoutQueryParams(be, self, args.keys)
    [] act = "join" -> OK(Join(self, other))

\* ------------------------------------------------------- every accessor, derived lazily from the five parts
\* (cached_property bodies of yarl/_url.py; decoded ones through the Level I unquoters)
OptR(r) == IF IsOK(r) THEN [ok |-> r.ok] ELSE [exc |-> "ValueError"]
OptMap(r, f(_)) == IF ~IsOK(r) THEN [exc |-> "ValueError"] ELSE IF IsNone(r.ok) THEN [ok |-> NONE] ELSE [ok |-> SOME(f(Get(r.ok)))]
UnqPlain(t) == Unquote(UNQUOTER, t)
RawSuffixes(u) == LET n == RawName(u) IN
  IF n # <<>> /\ Last(n) = DOT THEN <<>>
  ELSE LET ps == Split(LStripSet(n, {DOT}), DOT) IN [i \in 1..(Len(ps) - 1) |-> <<DOT>> \o ps[i + 1]]
PathDecoded(u) == IF u.path # <<>> THEN Unquote(PATH_UNQUOTER, u.path) ELSE IF u.netloc # <<>> THEN <<SLASH>> ELSE <<>>
QueryStringDecoded(u) == IF u.query # <<>> THEN Unquote(QS_UNQUOTER, u.query) ELSE <<>>
HostPortSubM(u0) ==
  LET rh == RawHost(u0) ep == ExplicitPort(u0) IN
  IF ~IsOK(rh) \/ ~IsOK(ep) THEN [exc |-> "ValueError"] ELSE IF IsNone(rh.ok) THEN [ok |-> NONE]
  ELSE LET raw == RStripSet(Get(rh.ok), {DOT})
           h == IF Has(raw, COLON) THEN <<LBR>> \o raw \o <<RBR>> ELSE raw IN
       IF IsNone(ep.ok) \/ ep.ok = DefaultPortOf(u0.scheme) THEN [ok |-> SOME(h)] ELSE [ok |-> SOME(h \o <<COLON>> \o NatText(Get(ep.ok)))]
\* URL.host: IP literals and digit-final names verbatim; other ASCII names are what idna.decode returns for them (themselves);
\* punycode labels / non-ASCII raw hosts go through the idna package: gray (environment)
HostIdnaGray(h) == ~IsAscii(h) \/ \E i \in 1..(Len(h) - 3) : SubSeq(LowerS(h), i, i + 3) = <<120, 110, 45, 45>>
HostDecodedM(u0) ==
  LET rh == RawHost(u0) IN
  IF ~IsOK(rh) THEN [exc |-> "ValueError"] ELSE IF IsNone(rh.ok) THEN [ok |-> NONE]
  ELSE IF HostIdnaGray(Get(rh.ok)) THEN GRAY ELSE [ok |-> rh.ok]
\* URL.authority = make_netloc(user, password, host, port) on the DECODED parts: the port falls back to the scheme default,
\* an IPv6 host is NOT bracketed (named: Dev_AuthorityUnbracketedIpv6 -- outside the listed properties, modelled as the code is)
AuthorityM(u0) ==
  LET np == NetlocParts(u0) hd == HostDecodedM(u0) IN
  IF ~IsOK(np) THEN [exc |-> "ValueError"] ELSE IF IsGray(hd) THEN GRAY
  ELSE LET p == np.ok
           port == IF ~IsNone(p.port) THEN p.port ELSE DefaultPortOf(u0.scheme)
           un(x) == IF IsNone(x) THEN NONE ELSE SOME(UnqPlain(Get(x))) IN
       [ok |-> MakeNetloc(un(p.user), un(p.password), hd.ok, OptPortText(port), FALSE)]
AccessorNames == {"authority", "host", "host_port_subcomponent", "query", "scheme", "raw_authority", "raw_user", "raw_password", "raw_host", "explicit_port", "host_subcomponent", "user", "password", "port", "raw_path", "path", "path_safe", "raw_query_string", "query_string", "raw_fragment", "fragment", "raw_parts", "parts", "raw_name", "name", "raw_suffix", "suffix", "raw_suffixes", "suffixes", "raw_path_qs", "path_qs", "absolute", "bool", "str", "is_default_port"}
\* one accessor at a time (only the observed ones are evaluated)
AccM(f, u) ==
  CASE f = "host_port_subcomponent" -> HostPortSubM(u)
    [] f = "authority" -> AuthorityM(u)
    [] f = "host" -> HostDecodedM(u)
    [] f = "query" -> [ok |-> QueryPairsReplace(u.query)]
    [] f = "scheme" -> [ok |-> u.scheme]
    [] f = "raw_authority" -> [ok |-> u.netloc]
    [] f = "raw_user" -> OptR(RawUser(u))
    [] f = "raw_password" -> OptR(RawPassword(u))
    [] f = "raw_host" -> OptR(RawHost(u))
    [] f = "explicit_port" -> OptR(ExplicitPort(u))
    [] f = "host_subcomponent" -> OptR(HostSubcomponent(u))
    [] f = "user" -> OptMap(RawUser(u), UnqPlain)
    [] f = "password" -> OptMap(RawPassword(u), UnqPlain)
    [] f = "port" -> (LET ep == ExplicitPort(u) IN IF ~IsOK(ep) THEN [exc |-> "ValueError"] ELSE [ok |-> IF ~IsNone(ep.ok) THEN ep.ok ELSE DefaultPortOf(u.scheme)])
    [] f = "raw_path" -> [ok |-> RawPath(u)]
    [] f = "path" -> [ok |-> PathDecoded(u)]
    [] f = "path_safe" -> [ok |-> IF u.path # <<>> THEN Unquote(PATH_SAFE_UNQUOTER, u.path) ELSE IF u.netloc # <<>> THEN <<SLASH>> ELSE <<>>]
    [] f = "raw_query_string" -> [ok |-> u.query]
    [] f = "query_string" -> [ok |-> QueryStringDecoded(u)]
    [] f = "raw_fragment" -> [ok |-> u.fragment]
    [] f = "fragment" -> [ok |-> IF u.fragment # <<>> THEN UnqPlain(u.fragment) ELSE <<>>]
    [] f = "raw_parts" -> [ok |-> RawParts(u)]
    [] f = "parts" -> [ok |-> [i \in 1..Len(RawParts(u)) |-> UnqPlain(RawParts(u)[i])]]
    [] f = "raw_name" -> [ok |-> RawName(u)]
    [] f = "name" -> [ok |-> UnqPlain(RawName(u))]
    [] f = "raw_suffix" -> [ok |-> RawSuffix(u)]
    [] f = "suffix" -> [ok |-> UnqPlain(RawSuffix(u))]
    [] f = "raw_suffixes" -> [ok |-> RawSuffixes(u)]
    [] f = "suffixes" -> [ok |-> [i \in 1..Len(RawSuffixes(u)) |-> UnqPlain(RawSuffixes(u)[i])]]
    [] f = "raw_path_qs" -> [ok |-> IF u.query # <<>> THEN RawPath(u) \o <<QMARK>> \o u.query ELSE RawPath(u)]
    [] f = "path_qs" -> [ok |-> IF QueryStringDecoded(u) = <<>> THEN PathDecoded(u) ELSE PathDecoded(u) \o <<QMARK>> \o QueryStringDecoded(u)]
    [] f = "absolute" -> [ok |-> u.netloc # <<>>]
    [] f = "bool" -> [ok |-> (u.netloc # <<>> \/ u.path # <<>> \/ u.query # <<>> \/ u.fragment # <<>>)]
    [] f = "str" -> OptR(Str(u))
    [] f = "is_default_port" -> (LET ep == ExplicitPort(u) IN IF ~IsOK(ep) THEN [exc |-> "ValueError"]
                        ELSE [ok |-> IF IsNone(ep.ok) THEN u.netloc # <<>> ELSE ep.ok = DefaultPortOf(u.scheme)])

\* ------------------------------------------------------------------ URL.human_repr
\* printable: the code points str.isprintable() accepts among those involved (environment data of the record).
\* IDN hosts (decoded through the idna package) are outside the model: gray.
HQ(t, unsafe, printable) == HumanQuote(t, unsafe, {c \in Range(t) : c \notin printable})
HumanRepr(u, printable) ==
  LET np == NetlocParts(u) IN
  IF ~IsOK(np) THEN np
  ELSE LET p == np.ok
           hostGray == ~IsNone(p.host) /\ (~IsAscii(Get(p.host)) \/ \E i \in 1..(Len(Get(p.host)) - 3) : SubSeq(LowerS(Get(p.host)), i, i + 3) = <<120, 110, 45, 45>>) IN
       IF hostGray THEN GRAY
       ELSE LET user == IF IsNone(p.user) THEN NONE ELSE SOME(HQ(UnqPlain(Get(p.user)), UserinfoUnsafe, printable))
                pw == IF IsNone(p.password) THEN NONE ELSE SOME(HQ(UnqPlain(Get(p.password)), UserinfoUnsafe, printable))
                host == IF IsNone(p.host) THEN NONE ELSE SOME(IF Has(Get(p.host), COLON) THEN <<LBR>> \o Get(p.host) \o <<RBR>> ELSE Get(p.host))
                path == HQ(PathDecoded(u), PathUnsafe, printable)
                pairs == IF BadRun(u.query, 1) THEN <<>> ELSE QueryPairs(u.query)
                qs == JoinWith([i \in 1..Len(pairs) |-> HQ(pairs[i][1], QueryUnsafe, printable) \o <<EQ>> \o HQ(pairs[i][2], QueryUnsafe, printable)], AMP)
                frag == HQ(IF u.fragment # <<>> THEN UnqPlain(u.fragment) ELSE <<>>, {}, printable) IN
            IF BadRun(u.query, 1) THEN GRAY
            ELSE OK(UnsplitResult(u.scheme, MakeNetloc(user, pw, host, OptPortText(p.port), FALSE), path, qs, frag))
=============================================================================
