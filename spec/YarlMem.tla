------------------------------ MODULE YarlMem ------------------------------
(***************************************************************************)
(* The memory / memoisation machine of yarl (C08, C09): URL objects with   *)
(* identity, their lazily filled per-object cache, the module-level LRU    *)
(* caches that SHARE objects between callers, pickling, and cache          *)
(* reconfiguration.  One action per linearization point of the code:       *)
(*                                                                         *)
(*  CtorHit / CtorMiss   lru_cache lookup of encode_url / pre_encoded_url  *)
(*                       (miss: new object, eager entries pre-filled,      *)
(*                       stored, least recently used entry evicted)        *)
(*  FromPartsHit / Miss  lru_cache lookup of from_parts (modifier results) *)
(*  PropHit / PropFill   under_cached_property: _cache hit / compute+store *)
(*  Unpickle             URL.__new__(UNDEFINED) + __setstate__: a FRESH    *)
(*                       object, never one of the shared ones              *)
(*  HostHit / HostMiss   _encode_host(host, validate_host) lru_cache       *)
(*  CacheClear / CacheConfigure   re-binding of the host caches            *)
(*                                                                         *)
(* URL values and derived values are abstract (uninterpreted): Derive(k,v) *)
(* is what accessor k of value v must return.  The properties are about    *)
(* the PROTOCOL: nothing reachable ever returns anything but Derive /      *)
(* Pure, no object changes its value, and cache keys are complete.         *)
(* Named deviations (negative configurations) re-introduce the defects the *)
(* code guards against; each must produce a counterexample.                *)
(***************************************************************************)
EXTENDS Naturals, Sequences, FiniteSets, TLC

CONSTANTS Vals,          \* abstract URL values (five-tuples)
          Props,         \* accessor names
          Hosts,         \* host texts
          MaxObjs, LruSize, MaxSteps

\* negative configurations (cfg: Dev_X <- TrueC)
TrueC == TRUE
Dev_UnpickleThroughCache == FALSE   \* __setstate__ applied to an object obtained from the cached constructor
Dev_HostKeyWithoutFlag   == FALSE   \* _encode_host keyed on host only (validate_host dropped from the key)
Dev_EagerWrong           == FALSE   \* the constructor pre-fills an entry that differs from the lazily derived one

Derive(k, v) == <<"derived", k, v>>                 \* what accessor k of value v must return
PureHost(h, flag) == <<"host", h, flag>>             \* what _encode_host(h, flag) must return
EagerProps == Props                                  \* entries encode_url pre-fills (any may be pre-filled)

VARIABLES heap,      \* object id -> [val, cache: partial function Props -> value]
          lru,       \* constructor cache: sequence (recency order, most recent last) of <<val, object id>>
          hostc,     \* host cache: set of <<key, result>>
          last,      \* result of the last completed call: [call, result] (history variable, VIEW-hidden)
          steps
vars == <<heap, lru, hostc, last, steps>>

Ids == DOMAIN heap
NewId == Cardinality(Ids) + 1
EmptyCache == [p \in {} |-> 0]
Fill(cache, p, x) == [q \in DOMAIN cache \cup {p} |-> IF q = p THEN x ELSE cache[q]]

Init == heap = <<>> /\ lru = <<>> /\ hostc = {} /\ last = [call |-> <<"none">>, result |-> <<"nil">>, obj |-> 0] /\ steps = 0

LruIndex(v) == {i \in 1..Len(lru) : lru[i][1] = v}
Touch(i) == SubSeq(lru, 1, i - 1) \o SubSeq(lru, i + 1, Len(lru)) \o <<lru[i]>>
Tick == steps < MaxSteps /\ steps' = steps + 1

\* URL(s) with s parsing to value v: cache hit returns the SHARED object
CtorHit(v) == /\ Tick /\ LruIndex(v) # {}
              /\ LET i == CHOOSE j \in LruIndex(v) : TRUE IN
                 /\ lru' = Touch(i)
                 /\ last' = [call |-> <<"ctor", v>>, result |-> <<"obj", heap[lru[i][2]].val>>, obj |-> lru[i][2]]
              /\ UNCHANGED <<heap, hostc>>
\* miss: new object with some eager entries, stored; LRU eviction
CtorMiss(v) == /\ Tick /\ LruIndex(v) = {} /\ Cardinality(Ids) < MaxObjs
               /\ \E eager \in SUBSET EagerProps :
                    LET c == [p \in eager |-> IF Dev_EagerWrong THEN <<"eager", p, v>> ELSE Derive(p, v)]
                        o == NewId IN
                    /\ heap' = Append(heap, [val |-> v, cache |-> c])
                    /\ lru' = (IF Len(lru) >= LruSize THEN Tail(lru) ELSE lru) \o << <<v, o>> >>
                    /\ last' = [call |-> <<"ctor", v>>, result |-> <<"obj", v>>, obj |-> o]
               /\ UNCHANGED hostc
\* a modifier: result value w from receiver o (from_parts is cached the same way: modelled by Ctor* on w)
Modify(o, w) == /\ Tick /\ o \in Ids /\ Cardinality(Ids) < MaxObjs
                /\ heap' = Append(heap, [val |-> w, cache |-> EmptyCache])
                /\ last' = [call |-> <<"modify", heap[o].val, w>>, result |-> <<"obj", w>>, obj |-> o]
                /\ UNCHANGED <<lru, hostc>>
\* reading accessor p of object o
PropHit(o, p) == /\ Tick /\ o \in Ids /\ p \in DOMAIN heap[o].cache
                 /\ last' = [call |-> <<"read", heap[o].val, p>>, result |-> heap[o].cache[p], obj |-> o]
                 /\ UNCHANGED <<heap, lru, hostc>>
PropFill(o, p) == /\ Tick /\ o \in Ids /\ p \notin DOMAIN heap[o].cache
                  /\ heap' = [heap EXCEPT ![o].cache = Fill(@, p, Derive(p, heap[o].val))]
                  /\ last' = [call |-> <<"read", heap[o].val, p>>, result |-> Derive(p, heap[o].val), obj |-> o]
                  /\ UNCHANGED <<lru, hostc>>
\* pickle.loads(pickle.dumps(o)): URL.__new__(UNDEFINED) gives a FRESH object whose state is then set
Unpickle(o) == /\ Tick /\ o \in Ids
               /\ IF Dev_UnpickleThroughCache /\ lru # <<>>
                  THEN \* the defect the UNDEFINED branch guards against: __setstate__ lands on a cached, shared object
                       LET victim == lru[Len(lru)][2] IN
                       heap' = [heap EXCEPT ![victim] = [val |-> heap[o].val, cache |-> EmptyCache]]
                  ELSE /\ Cardinality(Ids) < MaxObjs
                       /\ heap' = Append(heap, [val |-> heap[o].val, cache |-> EmptyCache])
               /\ last' = [call |-> <<"unpickle", heap[o].val>>, result |-> <<"obj", heap[o].val>>, obj |-> o]
               /\ UNCHANGED <<lru, hostc>>
\* _encode_host(h, flag)
HostKey(h, flag) == IF Dev_HostKeyWithoutFlag THEN <<h>> ELSE <<h, flag>>
HostCall(h, flag) == /\ Tick
                     /\ LET hit == {e \in hostc : e[1] = HostKey(h, flag)} IN
                        IF hit # {} THEN /\ last' = [call |-> <<"host", h, flag>>, result |-> (CHOOSE e \in hit : TRUE)[2], obj |-> 0]
                                         /\ UNCHANGED hostc
                        ELSE /\ hostc' = hostc \cup {<<HostKey(h, flag), PureHost(h, flag)>>}
                             /\ last' = [call |-> <<"host", h, flag>>, result |-> PureHost(h, flag), obj |-> 0]
                     /\ UNCHANGED <<heap, lru>>
CacheClear == /\ Tick /\ hostc' = {} /\ last' = [call |-> <<"cache_clear">>, result |-> <<"nil">>, obj |-> 0] /\ UNCHANGED <<heap, lru>>
\* cache_configure re-wraps the same pure functions with new (empty) caches
CacheConfigure == /\ Tick /\ hostc' = {} /\ last' = [call |-> <<"cache_configure">>, result |-> <<"nil">>, obj |-> 0] /\ UNCHANGED <<heap, lru>>

Next == \/ \E v \in Vals : CtorHit(v) \/ CtorMiss(v)
        \/ \E o \in Ids, w \in Vals : Modify(o, w)
        \/ \E o \in Ids, p \in Props : PropHit(o, p) \/ PropFill(o, p)
        \/ \E o \in Ids : Unpickle(o)
        \/ \E h \in Hosts, f \in BOOLEAN : HostCall(h, f)
        \/ CacheClear \/ CacheConfigure
Spec == Init /\ [][Next]_vars

\* ------------------------------------------------------------------ properties
\* C08: a URL never changes after creation
Immutable == [][\A o \in DOMAIN heap : heap'[o].val = heap[o].val]_vars
\* C08/C09: every cached entry (eagerly pre-filled or lazily derived) is what the accessor must return
CacheCoherent == \A o \in Ids : \A p \in DOMAIN heap[o].cache : heap[o].cache[p] = Derive(p, heap[o].val)
\* C08: the constructor cache maps a value to an object of that value
LruCoherent == \A i \in 1..Len(lru) : heap[lru[i][2]].val = lru[i][1]
\* C08: every completed call returned the pure function of its arguments
Oracle(call) ==
  IF call[1] \in {"none", "cache_clear", "cache_configure"} THEN <<"nil">>
  ELSE IF call[1] = "ctor" THEN <<"obj", call[2]>>
  ELSE IF call[1] = "modify" THEN <<"obj", call[3]>>
  ELSE IF call[1] = "read" THEN Derive(call[3], call[2])
  ELSE IF call[1] = "unpickle" THEN <<"obj", call[2]>>
  ELSE PureHost(call[2], call[3])
HistoryFree == last.result = Oracle(last.call)
LruBounded == Len(lru) <= LruSize
View == <<heap, lru, hostc, last>>
=============================================================================
