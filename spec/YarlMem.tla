------------------------------ MODULE YarlMem ------------------------------
(***************************************************************************)
(* The memory / memoisation machine of yarl (C08, C09): URL objects with   *)
(* identity, their lazily filled per-object cache, the module-level LRU    *)
(* caches that SHARE objects between callers, pickling, and cache          *)
(* reconfiguration.  One action per linearization point of the code:       *)
(*                                                                         *)
(*  CtorHit / CtorMiss   lru_cache lookup of encode_url / pre_encoded_url  *)
(*                       (miss: new object, eager entries pre-filled,      *)
(*                       stored, least recently used entry evicted)        *)
(*  ModifyCachedHit/Miss lru_cache lookup of from_parts: the result of a    *)
(*                       modifier (with_scheme/host/port/user/password/    *)
(*                       path/fragment/name/suffix, parent, origin,        *)
(*                       relative, truediv, joinpath, join, URL(Split-     *)
(*                       Result)) is a SHARED object when the same five    *)
(*                       parts were produced before                        *)
(*  ModifyUncached       from_parts_uncached (with_query, extend_query,    *)
(*                       update_query): always a fresh object              *)
(*  SelfReturn           URL(url), with_fragment(same), extend_query(),    *)
(*                       without_query_params(absent): the receiver itself *)
(*  PropHit / PropFill   under_cached_property: _cache hit / compute+store *)
(*  Unpickle             URL.__new__(UNDEFINED) + __setstate__: a FRESH    *)
(*                       object, never one of the shared ones              *)
(*  HostHit / HostMiss   _encode_host(host, validate_host) lru_cache       *)
(*  CacheClear / CacheConfigure   re-binding of the host caches            *)
(*                                                                         *)
(* URL values and derived values are abstract (uninterpreted): Derive(k,v) *)
(* is what accessor k of value v must return.  The properties are about    *)
(* the PROTOCOL: nothing reachable ever returns anything but Derive /      *)
(* Pure, no object changes its value, and cache keys are complete.         *)
(* Named deviations (negative configurations) re-introduce the defects the *)
(* code guards against; each must produce a counterexample.                *)
(***************************************************************************)
EXTENDS Naturals, Sequences, FiniteSets, TLC

CONSTANTS Vals,          \* abstract URL values (five-tuples)
          Props,         \* accessor names
          Hosts,         \* host texts
          MaxObjs, LruSize, MaxSteps,
          CachedStep(_, _),    \* CachedStep(v, w): some from_parts-cached modifier takes a URL of value v to value w
          UncachedStep(_, _)   \* the same for the from_parts_uncached modifiers
\* instances of the two step relations
AnyStep(v, w) == TRUE                                \* R1: full generality
\* R2 (replay on the real library): values are <<fragment, query>> coordinates; with_fragment changes the first
\* (and returns self when it is unchanged), with_query rewrites the second (possibly to the same text)
GridVals == {1, 2} \X {1, 2}
CachedGrid(v, w) == v[2] = w[2] /\ v # w
UncachedGrid(v, w) == v[1] = w[1]

\* negative configurations (cfg: Dev_X <- TrueC)
TrueC == TRUE
Dev_UnpickleThroughCache == FALSE   \* __setstate__ applied to an object obtained from the cached constructor
Dev_HostKeyWithoutFlag   == FALSE   \* _encode_host keyed on host only (validate_host dropped from the key)
Dev_EagerWrong           == FALSE   \* the constructor pre-fills an entry that differs from the lazily derived one
Dev_FromPartsKeyPartial  == FALSE   \* from_parts keyed on fewer than the five parts (two values share a key)

Derive(k, v) == <<"derived", k, v>>                 \* what accessor k of value v must return
PureHost(h, flag) == <<"host", h, flag>>             \* what _encode_host(h, flag) must return
EagerProps == Props                                  \* entries encode_url pre-fills (any may be pre-filled)

VARIABLES heap,      \* object id -> [val, cache: partial function Props -> value]
          lru,       \* constructor cache: sequence (recency order, most recent last) of <<val, object id>>
          lruP,      \* from_parts cache: the same shape, keyed by the five parts
          hostc,     \* host cache: set of <<key, result>>
          last,      \* result of the last completed call: [call, result] (history variable, VIEW-hidden)
          steps
vars == <<heap, lru, lruP, hostc, last, steps>>

Ids == DOMAIN heap
NewId == Cardinality(Ids) + 1
EmptyCache == [p \in {} |-> 0]
Fill(cache, p, x) == [q \in DOMAIN cache \cup {p} |-> IF q = p THEN x ELSE cache[q]]

Init == heap = <<>> /\ lru = <<>> /\ lruP = <<>> /\ hostc = {}
        /\ last = [call |-> <<"none">>, result |-> <<"nil">>, obj |-> 0, ret |-> 0] /\ steps = 0

LruIndex(v) == {i \in 1..Len(lru) : lru[i][1] = v}
Touch(i) == SubSeq(lru, 1, i - 1) \o SubSeq(lru, i + 1, Len(lru)) \o <<lru[i]>>
PKey(v) == IF Dev_FromPartsKeyPartial THEN "k" ELSE v
PIndex(v) == {i \in 1..Len(lruP) : lruP[i][1] = PKey(v)}
TouchP(i) == SubSeq(lruP, 1, i - 1) \o SubSeq(lruP, i + 1, Len(lruP)) \o <<lruP[i]>>
Tick == steps < MaxSteps /\ steps' = steps + 1
Nil == <<"nil">>

\* URL(s) with s parsing to value v: cache hit returns the SHARED object
CtorHit(v) == /\ Tick /\ LruIndex(v) # {}
              /\ LET i == CHOOSE j \in LruIndex(v) : TRUE IN
                 /\ lru' = Touch(i)
                 /\ last' = [call |-> <<"ctor", v>>, result |-> <<"obj", heap[lru[i][2]].val>>, obj |-> lru[i][2], ret |-> lru[i][2]]
              /\ UNCHANGED <<heap, lruP, hostc>>
\* miss: new object with some eager entries, stored; LRU eviction
CtorMiss(v) == /\ Tick /\ LruIndex(v) = {} /\ Cardinality(Ids) < MaxObjs
               /\ \E eager \in SUBSET EagerProps :
                    LET c == [p \in eager |-> IF Dev_EagerWrong THEN <<"eager", p, v>> ELSE Derive(p, v)]
                        o == NewId IN
                    /\ heap' = Append(heap, [val |-> v, cache |-> c])
                    /\ lru' = (IF Len(lru) >= LruSize THEN Tail(lru) ELSE lru) \o << <<v, o>> >>
                    /\ last' = [call |-> <<"ctor", v>>, result |-> <<"obj", v>>, obj |-> o, ret |-> o]
               /\ UNCHANGED <<lruP, hostc>>
\* a modifier that ends in from_parts(...): hit returns the SHARED object that an earlier caller got
ModifyCachedHit(o, w) ==
  /\ Tick /\ o \in Ids /\ CachedStep(heap[o].val, w) /\ PIndex(w) # {}
  /\ LET i == CHOOSE j \in PIndex(w) : TRUE IN
     /\ lruP' = TouchP(i)
     /\ last' = [call |-> <<"modify", heap[o].val, w>>, result |-> <<"obj", heap[lruP[i][2]].val>>, obj |-> o, ret |-> lruP[i][2]]
  /\ UNCHANGED <<heap, lru, hostc>>
ModifyCachedMiss(o, w) ==
  /\ Tick /\ o \in Ids /\ CachedStep(heap[o].val, w) /\ PIndex(w) = {} /\ Cardinality(Ids) < MaxObjs
  /\ heap' = Append(heap, [val |-> w, cache |-> EmptyCache])
  /\ lruP' = (IF Len(lruP) >= LruSize THEN Tail(lruP) ELSE lruP) \o << <<PKey(w), NewId>> >>
  /\ last' = [call |-> <<"modify", heap[o].val, w>>, result |-> <<"obj", w>>, obj |-> o, ret |-> NewId]
  /\ UNCHANGED <<lru, hostc>>
\* a modifier that ends in from_parts_uncached(...): always a fresh object, no cache touched
ModifyUncached(o, w) ==
  /\ Tick /\ o \in Ids /\ UncachedStep(heap[o].val, w) /\ Cardinality(Ids) < MaxObjs
  /\ heap' = Append(heap, [val |-> w, cache |-> EmptyCache])
  /\ last' = [call |-> <<"modifyq", heap[o].val, w>>, result |-> <<"obj", w>>, obj |-> o, ret |-> NewId]
  /\ UNCHANGED <<lru, lruP, hostc>>
\* an operation that returns its receiver (sound only because objects never change)
SelfReturn(o) ==
  /\ Tick /\ o \in Ids
  /\ last' = [call |-> <<"self", heap[o].val>>, result |-> <<"obj", heap[o].val>>, obj |-> o, ret |-> o]
  /\ UNCHANGED <<heap, lru, lruP, hostc>>
\* reading accessor p of object o
PropHit(o, p) == /\ Tick /\ o \in Ids /\ p \in DOMAIN heap[o].cache
                 /\ last' = [call |-> <<"read", heap[o].val, p>>, result |-> heap[o].cache[p], obj |-> o, ret |-> 0]
                 /\ UNCHANGED <<heap, lru, lruP, hostc>>
PropFill(o, p) == /\ Tick /\ o \in Ids /\ p \notin DOMAIN heap[o].cache
                  /\ heap' = [heap EXCEPT ![o].cache = Fill(@, p, Derive(p, heap[o].val))]
                  /\ last' = [call |-> <<"read", heap[o].val, p>>, result |-> Derive(p, heap[o].val), obj |-> o, ret |-> 0]
                  /\ UNCHANGED <<lru, lruP, hostc>>
\* pickle.loads(pickle.dumps(o)): URL.__new__(UNDEFINED) gives a FRESH object whose state is then set
Unpickle(o) == /\ Tick /\ o \in Ids
               /\ IF Dev_UnpickleThroughCache /\ lru # <<>>
                  THEN \* the defect the UNDEFINED branch guards against: __setstate__ lands on a cached, shared object
                       LET victim == lru[Len(lru)][2] IN
                       /\ heap' = [heap EXCEPT ![victim] = [val |-> heap[o].val, cache |-> EmptyCache]]
                       /\ last' = [call |-> <<"unpickle", heap[o].val>>, result |-> <<"obj", heap[o].val>>, obj |-> o, ret |-> victim]
                  ELSE /\ Cardinality(Ids) < MaxObjs
                       /\ heap' = Append(heap, [val |-> heap[o].val, cache |-> EmptyCache])
                       /\ last' = [call |-> <<"unpickle", heap[o].val>>, result |-> <<"obj", heap[o].val>>, obj |-> o, ret |-> NewId]
               /\ UNCHANGED <<lru, lruP, hostc>>
\* _encode_host(h, flag)
HostKey(h, flag) == IF Dev_HostKeyWithoutFlag THEN <<h>> ELSE <<h, flag>>
HostCall(h, flag) == /\ Tick
                     /\ LET hit == {e \in hostc : e[1] = HostKey(h, flag)} IN
                        IF hit # {} THEN /\ last' = [call |-> <<"host", h, flag>>, result |-> (CHOOSE e \in hit : TRUE)[2], obj |-> 0, ret |-> 0]
                                         /\ UNCHANGED hostc
                        ELSE /\ hostc' = hostc \cup {<<HostKey(h, flag), PureHost(h, flag)>>}
                             /\ last' = [call |-> <<"host", h, flag>>, result |-> PureHost(h, flag), obj |-> 0, ret |-> 0]
                     /\ UNCHANGED <<heap, lru, lruP>>
\* cache_clear / cache_configure touch the three host caches only: the constructor and from_parts caches survive
CacheClear == /\ Tick /\ hostc' = {} /\ last' = [call |-> <<"cache_clear">>, result |-> Nil, obj |-> 0, ret |-> 0] /\ UNCHANGED <<heap, lru, lruP>>
\* cache_configure re-wraps the same pure functions with new (empty) caches
CacheConfigure == /\ Tick /\ hostc' = {} /\ last' = [call |-> <<"cache_configure">>, result |-> Nil, obj |-> 0, ret |-> 0] /\ UNCHANGED <<heap, lru, lruP>>

Next == \/ \E v \in Vals : CtorHit(v) \/ CtorMiss(v)
        \/ \E o \in Ids, w \in Vals : ModifyCachedHit(o, w) \/ ModifyCachedMiss(o, w) \/ ModifyUncached(o, w)
        \/ \E o \in Ids : SelfReturn(o)
        \/ \E o \in Ids, p \in Props : PropHit(o, p) \/ PropFill(o, p)
        \/ \E o \in Ids : Unpickle(o)
        \/ \E h \in Hosts, f \in BOOLEAN : HostCall(h, f)
        \/ CacheClear \/ CacheConfigure
Spec == Init /\ [][Next]_vars

\* ------------------------------------------------------------------ properties
\* C08: a URL never changes after creation
Immutable == [][\A o \in DOMAIN heap : heap'[o].val = heap[o].val]_vars
\* C08/C09: every cached entry (eagerly pre-filled or lazily derived) is what the accessor must return
CacheCoherent == \A o \in Ids : \A p \in DOMAIN heap[o].cache : heap[o].cache[p] = Derive(p, heap[o].val)
\* C08: the constructor cache and the from_parts cache map a key to an object of that value
LruCoherent == /\ \A i \in 1..Len(lru) : heap[lru[i][2]].val = lru[i][1]
               /\ \A i \in 1..Len(lruP) : PKey(heap[lruP[i][2]].val) = lruP[i][1]
\* C08: every completed call returned the pure function of its arguments
Oracle(call) ==
  IF call[1] \in {"none", "cache_clear", "cache_configure"} THEN Nil
  ELSE IF call[1] \in {"ctor", "self", "unpickle"} THEN <<"obj", call[2]>>
  ELSE IF call[1] \in {"modify", "modifyq"} THEN <<"obj", call[3]>>
  ELSE IF call[1] = "read" THEN Derive(call[3], call[2])
  ELSE PureHost(call[2], call[3])
HistoryFree == last.result = Oracle(last.call)
\* the object a call returns has the value the call reports (sharing never hands out an object of another value)
ReturnsRightObject == last.ret # 0 => (last.ret \in Ids /\ <<"obj", heap[last.ret].val>> = last.result)
LruBounded == Len(lru) <= LruSize /\ Len(lruP) <= LruSize
View == <<heap, lru, lruP, hostc, last>>
=============================================================================
