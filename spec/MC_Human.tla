------------------------------ MODULE MC_Human ------------------------------
(***************************************************************************)
(* R1 for C18 at component level: texts over a delimiter/escape/Unicode    *)
(* alphabet; human_quote (Level I) followed by the constructor's requoter  *)
(* and the decoded accessor gives the text back, for every position        *)
(* (userinfo, path, query part, fragment) -- i.e. human_repr() escapes     *)
(* everything that would change the parse in its position.                 *)
(***************************************************************************)
EXTENDS ContractQuoting, ImplUrl, TLC
CONSTANT MaxLen
\* # / : ? @ [ ] & + ; = % space a DEL NUL NBSP e-acute emoji '<' '%41'-ish pieces via % 4 1
Alphabet == {35, 47, 58, 63, 64, 91, 93, 38, 43, 59, 61, 37, 32, 97, 127, 0, 160, 233, 128512, 60, 52, 49}
NonPrintable == (0..31) \cup {127, 160} \cup (128..159)
VARIABLE s
Init == s = <<>>
Next == \E c \in Alphabet : Len(s) < MaxLen /\ s' = Append(s, c)
RoundTrip(unsafe, requoter) == Unquote(UNQUOTER, QuotePy(requoter, HumanQuote(s, unsafe, NonPrintable))) = s
Inv_Userinfo == RoundTrip(UserinfoUnsafe, REQUOTER)
                /\ ~HasAny(HumanQuote(s, UserinfoUnsafe, NonPrintable), {AT, COLON, SLASH, QMARK, HASH, LBR, RBR})
Inv_Path == Unquote(PATH_UNQUOTER, QuotePy(PATH_REQUOTER, HumanQuote(s, PathUnsafe, NonPrintable))) = s
            /\ ~HasAny(HumanQuote(s, PathUnsafe, NonPrintable), {QMARK, HASH})
Inv_QueryPart == DecodeQs(QuotePy(QUERY_REQUOTER, HumanQuote(s, QueryUnsafe, NonPrintable))) = s
                 /\ ~HasAny(HumanQuote(s, QueryUnsafe, NonPrintable), {HASH, AMP, EQ, SEMI, PLUS})
Inv_Fragment == RoundTrip({}, FRAGMENT_REQUOTER)
=============================================================================
