------------------------------ MODULE TraceUrl ------------------------------
(***************************************************************************)
(* Trace specification for URL-level observations.  One record = one       *)
(* transition of the URL value machine observed on the real code:          *)
(*   [id, act, args, self (Obs of the receiver, absent for creators),      *)
(*    other (Obs of a URL argument), out ([ok |-> Obs] | [exc |-> type]),  *)
(*    reparse, twin, ...]                                                  *)
(* TLC evaluates the Level A clauses of property Prop on every record;     *)
(* verdicts are total (failing clauses are printed, the record consumed).  *)
(***************************************************************************)
EXTENDS ContractUrl, ImplOps, Json, IOUtils, TLC, TLCExt
WriterModel == INSTANCE Writer WITH BUF <- 8192, MaxOut <- 0, MaxRuns <- 0, pc <- "idle", buf <- "static", size <- 8192,
                 pos <- 0, todo <- 0, liveHeap <- 0, freedTwice <- FALSE, freedStatic <- FALSE, faultUsed <- FALSE,
                 outcome <- "none", runs <- 0, written <- 0
CONSTANT Prop

Recs == JsonDeserialize(IOEnv.TRACE_FILE)
Has_(r, f) == f \in DOMAIN r
OutOk(r) == "out" \in DOMAIN r /\ Ok(r.out)

\* ---------------------------------------------------------------- C07
C07_Checks(r) ==
  (IF r.act = "ctor" /\ OutOk(r) THEN
      {<<"C07.decompose", TRUE,
         IF r.args.encoded THEN C07_DecomposeEncoded(r.args.s, r.out.ok) ELSE C07_DecomposeAuto(r.args.s, r.out.ok)>>}
   ELSE {})
  \cup (IF r.act = "ctor" /\ ~OutOk(r) /\ IsValueError(r.out) THEN
      {<<"C07.mustaccept", C07_MustAccept(r.args.s), ~C07_MustAccept(r.args.s)>>}
   ELSE {})
  \cup (IF OutOk(r) THEN
      {<<"C07.accessors", TRUE, C07_AccessorsMatchParts(r.out.ok)>>,
       <<"C07.authsplit", Netloc5(r.out.ok) # <<>>, C07_AuthoritySplit(r.out.ok)>>,
       <<"C07.recompose", Ok(r.out.ok.str), C07_Recompose(r.out.ok)>>}
   ELSE {})

\* programs of the generators for C01/C02/C06 use auto-encoding creators only; a record is judged
\* only if it is not itself an encoded=True entry point
EncodedEntry(r) == \/ (r.act = "ctor" /\ r.args.encoded) \/ r.act = "split"
                   \/ (r.act = "build" /\ "encoded" \in DOMAIN r.args.kw)
                   \/ (r.act \in {"with_path", "joinpath"} /\ r.args.encoded)
                   \/ (r.act = "join" /\ r.args.ref.encoded)

\* ---------------------------------------------------------------- C01
C01_Checks(r) ==
  IF OutOk(r) /\ ~EncodedEntry(r) THEN
     LET o == r.out.ok IN
     {<<"C01.ascii", C01_SchemeSane(o), C01_SchemeSane(o) => C01_Ascii(o)>>,
      <<"C01.components", TRUE, C01_Components(o)>>}
  ELSE {}

\* ---------------------------------------------------------------- C02
C02_Checks(r) ==
  IF ~OutOk(r) \/ EncodedEntry(r) THEN {}
  ELSE LET o == r.out.ok IN
    IF r.act = "ctor" THEN {<<"C02.ctor", TRUE, C02_Ctor(r.args.s, o)>>}
    ELSE IF r.act = "build" THEN {<<"C02.build", TRUE, C02_Build(r.args.kw, o)>>}
    ELSE (IF C02_ModifierApplies(r.act) THEN {<<"C02." \o r.act, TRUE, C02_Modifier(r.act, r.args, r.self, o)>>} ELSE {})
         \cup (IF C02_KeptApplies(r.act) /\ Has_(r, "self") /\ Ok(r.self.val) /\ Ok(o.val)
               THEN {<<"C02.kept." \o r.act, TRUE, C02_Kept(r.act, r.args, r.self, o)>>} ELSE {})

\* ---------------------------------------------------------------- C06
C06_Checks(r) ==
  IF ~OutOk(r) THEN {}
  ELSE LET o == r.out.ok IN
    {<<"C06.user", TRUE, C06_User(o)>>, <<"C06.password", TRUE, C06_Password(o)>>, <<"C06.path", TRUE, C06_Path(o)>>,
     <<"C06.path_safe", TRUE, C06_PathSafe(o)>>, <<"C06.parts", TRUE, C06_Parts(o)>>, <<"C06.name", TRUE, C06_Name(o)>>,
     <<"C06.suffix", TRUE, C06_Suffix(o)>>, <<"C06.fragment", TRUE, C06_Fragment(o)>>,
     <<"C06.query_string", TRUE, C06_QueryString(o)>>, <<"C06.query", TRUE, C06_Query(o)>>}
    \cup (IF EncodedEntry(r) THEN {}
          ELSE IF r.act = "build" THEN {<<"C06.readback.build", TRUE, C06_ReadBackBuild(r.args.kw, o)>>}
          ELSE IF C06_ReadBackApplies(r.act) THEN {<<"C06.readback." \o r.act, TRUE, C06_ReadBack(r.act, r.args, o)>>}
          ELSE {})

\* ---------------------------------------------------------------- C11
C11_Checks(r) ==
  IF OutOk(r) /\ Has_(r, "self") /\ C11_Applies(r.act) /\ ~EncodedEntry(r)
  THEN {<<"C11.frame." \o r.act, TRUE, C11_Frame(r.act, r.args, r.self, r.out.ok)>>,
        <<"C11.decoded." \o r.act, TRUE, C11_DecodedFollows(r.act, r.self, r.out.ok)>>} ELSE {}

\* ---------------------------------------------------------------- C15
C15_Checks(r) ==
  IF ~OutOk(r) \/ EncodedEntry(r) THEN {}
  ELSE LET O == r.out.ok IN
    \* RFC 3986 5.2.2: a reference with an EMPTY path (and no authority) keeps Base.path as it is -- dot segments a verbatim
    \* base carries are then not this operation's to remove
    {<<"C15.nodots", Netloc5(O) # <<>> /\ ~(r.act = "join" /\ Has_(r, "other") /\ Ok(r.other) /\ Path5(V(r.other)) = <<>>), C15_NoDots(O)>>}
    \cup (IF C15_ExpectedApplies(r.act, r.args, O)
          THEN {<<"C15.rds." \o r.act, TRUE, C15_Expected(r.act, r.args, IF Has_(r, "self") THEN r.self ELSE O, O)>>} ELSE {})
    \cup (IF Netloc5(O) = <<>> /\ r.act \in {"build", "with_path"}
          THEN {<<"C15.verbatim." \o r.act, TRUE, C15_Verbatim(r.act, r.args, O)>>} ELSE {})

\* ---------------------------------------------------------------- C14
C14_Checks(r) ==
  IF r.act # "join" \/ ~OutOk(r) \/ ~Has_(r, "other") \/ ~Ok(r.other) THEN {}
  ELSE LET S == r.self R == r.other.ok O == r.out.ok IN
    IF C14_RefUnchangedCase(S, R, UsesRelative) THEN {<<"C14.refunchanged", TRUE, SameParts(O, R)>>}
    ELSE {<<"C14.transform", C14_Judged(S), C14_Judged(S) => C14_IsTransform(S, R, O)>>}

\* ---------------------------------------------------------------- C03
C03_Checks(r) ==
  IF ~OutOk(r) \/ ~Has_(r, "reparse") \/ ~Ok(r.out.ok.str) THEN {}
  ELSE LET O == r.out.ok IN
    {<<"C03.fixedpoint", C03_ValidInput(O), C03_ValidInput(O) => C03_FixedPoint(O, r.reparse)>>}

\* ---------------------------------------------------------------- C09
C09_Checks(r) ==
  (IF ~OutOk(r) \/ ~Has_(r, "twin") THEN {}
   ELSE {<<"C09.twin." \o k, TRUE, C09_TwinDiff(r.out.ok, r.twin[k]) = {}>> : k \in DOMAIN r.twin})
  \* the RECEIVER after the operation (part of its lazily filled state was still open when the operation ran) against its own twin
  \cup (IF Has_(r, "self_after") /\ Has_(r, "self_after_twin")
        THEN {<<"C09.twin.receiver", TRUE, C09_TwinDiff(r.self_after, r.self_after_twin) = {}>>} ELSE {})

\* ---------------------------------------------------------------- C17
C17_Checks(r) ==
  (IF OutOk(r) THEN LET O == r.out.ok IN
      {<<"C17.fallback", TRUE, C17_PortFallback(O)>>, <<"C17.range", TRUE, C17_Range(O)>>,
       <<"C17.strport", TRUE, C17_StrPort(O)>>, <<"C17.hostportsub", TRUE, C17_HostPortSub(O)>>}
   ELSE {})
  \cup (IF r.act = "with_port" /\ Has_(r, "self") THEN {<<"C17.with_port", TRUE, C17_WithPort(r.args, r.self, r.out)>>} ELSE {})
  \* (both routes: with encoded=True the scheme is stored as given, and the default port is that of the scheme AS STORED)
  \* (with encoded=True the host is taken verbatim too: an IP literal would have to come bracketed, which is outside this clause)
  \cup (IF r.act = "build" /\ ("encoded" \notin DOMAIN r.args.kw \/ ("host" \in DOMAIN r.args.kw /\ ~Has(r.args.kw.host, COLON)))
        THEN {<<"C17.build_port", "port" \in DOMAIN r.args.kw, C17_BuildPort(r.args.kw, r.out)>>} ELSE {})

\* ---------------------------------------------------------------- C04
C04_Checks(r) ==
  IF r.act # "ctor" \/ r.args.encoded THEN {}
  ELSE LET canon == CanonicalUrl(r.args.s, UsesNetloc) IN
       {<<"C04.unchanged", canon, canon => (OutOk(r) /\ C04_Unchanged(r.args.s, r.out.ok))>>}

\* ---------------------------------------------------------------- C10
C10_Checks(r) ==
  IF r.act = "cmp" THEN
     {<<"C10.eqdef", TRUE, C10_EqDef(r)>>, <<"C10.hash", r.eq, C10_Hash(r)>>, <<"C10.symmetric", TRUE, C10_Symmetric(r)>>,
      <<"C10.trichotomy", TRUE, C10_Trichotomy(r)>>, <<"C10.lege", TRUE, C10_LeGe(r)>>, <<"C10.nonurl", TRUE, C10_NonUrl(r)>>}
  ELSE IF r.act = "cmp3" THEN {<<"C10.transitive", TRUE, C10_Transitive(r)>>}
  ELSE {}

\* ---------------------------------------------------------------- C12
C12_Checks(r) ==
  IF r.act \in {"with_query", "extend_query", "update_query", "mod"} /\ Has_(r, "self")
     /\ ~(r.args.q.form = "kwargs" /\ r.args.q.pairs = <<>>)      \* a call with no argument at all: not a query argument
  THEN
     {<<"C12.gate", ~QArgOk(r.args.q), C12_Gate(r.args.q, r.out)>>,
      <<"C12.argument_unchanged", Has_(r, "arg_unchanged"), Has_(r, "arg_unchanged") => r.arg_unchanged>>}
     \cup (IF r.act = "with_query" THEN {<<"C12.with_query", QArgOk(r.args.q), C12_WithQuery(r.args.q, r.self, r.out)>>}
           ELSE IF r.act = "extend_query" THEN {<<"C12.extend_query", QArgOk(r.args.q), C12_ExtendQuery(r.args.q, r.self, r.out)>>}
           ELSE {<<"C12.update_query", QArgOk(r.args.q), C12_UpdateQuery(r.args.q, r.self, r.out)>>})
  ELSE IF r.act = "without_query_params" /\ Has_(r, "self") THEN
     {<<"C12.without_query_params", TRUE, C12_Without(r.args.keys, r.self, r.out)>>}
  ELSE {}

\* ---------------------------------------------------------------- C13
C13_ObsChecks(tag, o) ==
  {<<"C13.parts_recompose" \o tag, TRUE, C13_PartsRecompose(o)>>, <<"C13.name_is_last" \o tag, TRUE, C13_NameIsLast(o)>>,
   <<"C13.suffix_is_tail" \o tag, TRUE, C13_SuffixIsTail(o)>>}
C13_Checks(r) ==
  IF r.act # "alt" THEN {}
  ELSE C13_ObsChecks("", r.self)
       \cup UNION {IF Ok(r.outs[i]) THEN C13_ObsChecks("/out", r.outs[i].ok) ELSE {} : i \in 1..Len(r.outs)}
       \cup (CASE r.family = "div" -> {<<"C13.div", TRUE, C13_Div(r.args, r.self, r.outs)>>}
               [] r.family = "join2" -> {<<"C13.join2", TRUE, C13_Join2(r.args, r.self, r.outs)>>}
               [] r.family = "with_name" -> {<<"C13.with_name", TRUE, C13_WithName(r.args, r.self, r.outs)>>}
               [] r.family = "with_suffix" -> {<<"C13.with_suffix", Ok(r.outs[1]), C13_WithSuffix(r.args, r.self, r.outs)>>})

\* ---------------------------------------------------------------- C16
C16_Checks(r) ==
  (IF OutOk(r) /\ ~EncodedEntry(r) THEN
      {<<"C16.lower_ascii", TRUE, C16_LowerAscii(r.out.ok)>>,
       <<"C16.ipv6_canonical", Ok(r.out.ok.raw_host) /\ V(r.out.ok.raw_host) # None /\ Has(V(r.out.ok.raw_host)[1], COLON), C16_Ipv6Canonical(r.out.ok)>>}
   ELSE {})
  \cup (IF r.act = "with_host" /\ Has_(r, "self") /\ Netloc5(r.self) # <<>> THEN {<<"C16.with_host", TRUE, C16_HostArg(r.args.v, r.out)>>} ELSE {})
  \cup (IF r.act = "build" /\ "host" \in DOMAIN r.args.kw /\ "encoded" \notin DOMAIN r.args.kw /\ "authority" \notin DOMAIN r.args.kw
           /\ ~(OutOk(r) = FALSE /\ r.out.exc = "ValueError" /\ C16_ExpectedHost(r.args.kw.host) # None)      \* build may fail for other arguments
        THEN {<<"C16.build_host", TRUE, C16_HostArg(r.args.kw.host, r.out)>>} ELSE {})
  \cup (IF r.act = "ctor" THEN {<<"C16.nfkc", HasAny(r.args.s, NfkcDelims), C16_Nfkc(r.args.s, NfkcDelims, r.out)>>} ELSE {})
  \cup (IF r.act = "ctor" /\ ~r.args.encoded THEN {<<"C16.ctor_ipv6", TRUE, C16_CtorHost(r.args.s, NfkcDelims, r.out)>>} ELSE {})
  \cup (IF r.act = "with_host_self" /\ Has_(r, "self") /\ ~(OutOk(r) = FALSE /\ r.out.exc = "n/a")
        THEN {<<"C16.selfhost." \o r.args.which, TRUE, C16_SelfHost(r.self, r.out)>>}
             \cup (IF r.args.which = "raw_host" THEN {<<"C16.selfhost_rejected", TRUE, C16_SelfHostRejected(r.self, r.out)>>} ELSE {})
        ELSE {})

\* ---------------------------------------------------------------- C18
\* judged: absolute URLs built from decoded components (act = build, not encoded, with a scheme and a host), and what the
\* non-encoding modifiers (decoded arguments again) make of them: the generator's programs all start with such a build
C18_Checks(r) ==
  IF OutOk(r) /\ Has_(r, "human") /\ ~EncodedEntry(r) /\ Scheme5(r.out.ok) # <<>> /\ Netloc5(r.out.ok) # <<>> THEN
     {<<"C18.roundtrip", Ok(r.out.ok.human_repr), C18_RoundTrip(r.out.ok, r.human)>>,
      <<"C18.only_needed_escapes", TRUE, C18_OnlyNeededEscapes(r.out.ok, Range(r.printable))>>}
     \cup (IF r.act = "build" THEN {<<"C18.readable", TRUE, C18_Readable(r.args.kw, r.out.ok, Range(r.printable))>>} ELSE {})
     \cup (IF r.act = "with_host" THEN {<<"C18.readable", TRUE, C18_HostDecoded(r.args.v, r.out.ok)>>} ELSE {})
  ELSE {}

\* ---------------------------------------------------------------- C19
\* alloc_sweep: one compiled-quoter call repeated with the k-th allocation failing, k = 0, 1, ... until none fires
C19_SweepChecks(r) ==
  LET n == Len(r.outcomes) IN
  {<<"C19.alloc.no_crash", TRUE, r.exit = 0 /\ n >= 1>>,
   <<"C19.alloc.memoryerror_then_result", TRUE,
       r.exit = 0 => (/\ \A i \in 1..(n - 1) : r.outcomes[i] = "MemoryError"
                      /\ r.outcomes[n] = "result" /\ r.result_correct)>>,
   <<"C19.alloc.later_calls_correct", TRUE, r.exit = 0 => \A i \in 1..n : r.next_correct[i]>>,
   \* the sweep passed at least the allocation points the Writer model has for this output length
   <<"C19.alloc.fault_points", TRUE, r.exit = 0 => n - 1 >= WriterModel!AllocPoints(r.outlen)>>}
C19_Checks(r) ==
  IF r.act = "alloc_sweep" THEN C19_SweepChecks(r)
  \* one child process per boundary input: it exits normally and the compiled result is the pure-Python one
  ELSE IF r.act = "boundary" THEN {<<"C19.boundary.no_crash", TRUE, r.exit = 0>>, <<"C19.boundary.result", r.exit = 0, r.exit = 0 => r.same>>}
  ELSE IF r.act \in {"alt", "cmp", "cmp3"} THEN {}
  ELSE {<<"C19.exception_class", ~OutOk(r), C19_OutcomeClass(r.out)>>}
       \cup (IF OutOk(r) THEN {<<"C19.accessor_exception_class", TRUE, C19_AccessorsClass(r.out.ok)>>} ELSE {})
       \cup (IF OutOk(r) /\ ~EncodedEntry(r) /\ r.act # "ctor" /\ "str" \in DOMAIN r.out.ok
                /\ (Has_(r, "self") => ("str" \in DOMAIN r.self /\ Ok(r.self.str)))
             THEN {<<"C19.str_total", TRUE, C19_StrTotal(r.out.ok)>>} ELSE {})

\* ---------------------------------------------------------------- C05 at URL level
\* "every URL-level result is independent of whether the C extension is available": the same program is run under both back
\* ends and the harness pairs the two records (plumbing only); every recorded part -- result or exception class, receiver,
\* reference, all accessors incl. human_repr -- must be identical
PairParts == {"out", "self", "other", "arg_unchanged"}
C05_PairSame(r) == \A f \in PairParts : (f \in DOMAIN r.c \/ f \in DOMAIN r.py) => (f \in DOMAIN r.c /\ f \in DOMAIN r.py /\ r.c[f] = r.py[f])
C05_Checks(r) == IF r.act = "pair" THEN {<<"C05.same_url", TRUE, C05_PairSame(r)>>} ELSE {}

Checks(r) ==
  CASE Prop = "C07" -> C07_Checks(r)
    [] Prop = "C05" -> C05_Checks(r)
    [] Prop = "C19" -> C19_Checks(r)
    [] Prop = "C18" -> C18_Checks(r)
    [] Prop = "C16" -> C16_Checks(r)
    [] Prop = "C13" -> C13_Checks(r)
    [] Prop = "C12" -> C12_Checks(r)
    [] Prop = "C10" -> C10_Checks(r)
    [] Prop = "C04" -> C04_Checks(r)
    [] Prop = "C11" -> C11_Checks(r)
    [] Prop = "C15" -> C15_Checks(r)
    [] Prop = "C14" -> C14_Checks(r)
    [] Prop = "C03" -> C03_Checks(r)
    [] Prop = "C09" -> C09_Checks(r)
    [] Prop = "C17" -> C17_Checks(r)
    [] Prop = "C01" -> C01_Checks(r)
    [] Prop = "C02" -> C02_Checks(r)
    [] Prop = "C06" -> C06_Checks(r)
    [] OTHER -> {}

\* ------------------------------------------------- Level I prediction of the recorded transition (drift measure)
\* "agree" | "drift" | "gray" (outside the model) | "n/a" (action not modelled / receiver not observed)
Five(o) == Url(Scheme5(o), Netloc5(o), Path5(o), Query5(o), Frag5(o))
\* long texts are outside the (recursive, quadratic) Level I evaluation: judged by the Level A clauses only
TextSmall(t) == Len(t) <= 300
ArgsSmall(r) ==
  CASE r.act = "ctor" -> TextSmall(r.args.s)
    [] r.act = "build" -> \A f \in DOMAIN r.args.kw \cap {"scheme", "authority", "host", "path", "query_string", "fragment"} : TextSmall(r.args.kw[f])
    [] r.act \in {"with_scheme", "with_host", "with_path", "with_name", "with_suffix", "truediv"} -> TextSmall(r.args.v)
    [] r.act \in {"with_user", "with_password", "with_fragment"} -> (r.args.v = <<>> \/ TextSmall(r.args.v[1]))
    [] r.act = "joinpath" -> \A i \in 1..Len(r.args.vs) : TextSmall(r.args.vs[i])
    [] r.act \in {"with_query", "extend_query", "update_query"} -> TextSmall(r.args.q.s) /\ Len(r.args.q.pairs) <= 8
    [] OTHER -> TRUE
Agreement(r) ==
  IF r.act \notin Modelled \/ "out" \notin DOMAIN r \/ "be" \notin DOMAIN r THEN "n/a"
  ELSE IF ~ArgsSmall(r) \/ (Has_(r, "self") /\ Ok(r.self.val) /\ Len(Path5(r.self)) + Len(Query5(r.self)) + Len(Netloc5(r.self)) + Len(Frag5(r.self)) > 400) THEN "n/a"
  ELSE IF r.act \notin {"ctor", "build"} /\ ~Has_(r, "self") THEN "n/a"
  ELSE IF r.act = "join" /\ (~Has_(r, "other") \/ ~Ok(r.other)) THEN "n/a"
  ELSE IF ~OutOk(r) /\ r.out.exc = "n/a" THEN "n/a"
  ELSE LET self == IF Has_(r, "self") THEN Five(r.self) ELSE Url(<<>>, <<>>, <<>>, <<>>, <<>>)
           other == IF r.act = "join" THEN Five(r.other.ok) ELSE self
           p == Apply(r.be, r.act, r.args, self, other) IN
       IF IsGray(p) THEN "gray"
       ELSE IF IsOK(p) THEN (IF OutOk(r) /\ Five(r.out.ok) = p.ok THEN "agree" ELSE "drift")
       ELSE (IF ~OutOk(r) /\ r.out.exc = p.exc THEN "agree" ELSE "drift")

\* ------------------------------------------------- attribution to named deviations of Level I
\* (trigger predicate AND observed = what Level I predicts for the deviation)
ModelOf(o) == Url(Scheme5(o), Netloc5(o), Path5(o), Query5(o), Frag5(o))
StrAsModel(o) == "str" \in DOMAIN o /\ Ok(o.str) /\ LET m == Str(ModelOf(o)) IN IsOK(m) /\ m.ok = V(o.str)
Trig_RootlessPathGainsSlashInStr(o) ==
  /\ Scheme5(o) # <<>> /\ Scheme5(o) \in UsesNetloc /\ Netloc5(o) = <<>>
  /\ Path5(o) # <<>> /\ Path5(o)[1] # SLASH /\ StrAsModel(o)
Trig_FirstSegmentColon(o) ==
  /\ Scheme5(o) = <<>> /\ Netloc5(o) = <<>>
  /\ LET c == Find(Path5(o), COLON) IN c > 1 /\ \A k \in 1..(c - 1) : Path5(o)[k] \in SchemeChars
  /\ StrAsModel(o)
\* str() rebuilds the authority from its parts when the port is the scheme default; with an EMPTY host
\* (only possible with encoded=True, e.g. 'ftp://u@:21/') make_netloc(host=None) returns '' and the
\* whole authority -- userinfo included -- disappears from the string
Trig_EmptyHostDefaultPortStr(o) ==
  /\ Netloc5(o) # <<>> /\ SplitAuthority(Netloc5(o)).host = <<>>
  /\ "explicit_port" \in DOMAIN o /\ Ok(o.explicit_port) /\ V(o.explicit_port) # None /\ V(o.explicit_port) = DefaultPort(Scheme5(o))
  /\ StrAsModel(o)
ObsAttribution(o) ==
  (IF Trig_EmptyHostDefaultPortStr(o) THEN {"Dev_EmptyHostDefaultPortStr"} ELSE {}) \cup
  (IF Trig_FirstSegmentColon(o) THEN {"Dev_FirstSegmentColon"} ELSE {})
\* Dev_BracketedNonIPv6LosesBrackets: _encode_host re-brackets only what ip_address() accepts, so an
\* IPvFuture literal or bracketed junk loses its brackets in the stored authority (trigger only)
HostInfoOf(A) == LET at == RFind(A, AT) IN IF at = 0 THEN A ELSE From(A, at + 1)
Trig_BracketedNonIPv6(r) ==
  /\ r.act = "ctor" /\ ~r.args.encoded /\ OutOk(r)
  /\ \E gray \in BOOLEAN :
       LET a == AppendixBWith(StripWhatwg(r.args.s), gray) IN
       Has(HostInfoOf(a.authority), LBR) /\ ~Has(HostInfoOf(Netloc5(r.out.ok)), LBR)
\* Dev_EmptyHost: an authority with an EMPTY host (only for schemes outside http/https/ws/wss/ftp, or with
\* encoded=True): eagerly cached raw_host is '' where the lazily derived one is None, make_netloc(host=None)
\* drops userinfo and port, raw[-1] indexes an empty string.  Trigger only.
EmptyHostObs(o) == \/ (Netloc5(o) # <<>> /\ SplitAuthority(Netloc5(o)).host = <<>>)
                   \/ ("raw_host" \in DOMAIN o /\ Ok(o.raw_host) /\ V(o.raw_host) = Some(<<>>))   \* eager '' for '//@:'
\* Dev_JoinRootlessBase: base without authority whose path is empty or rootless; observed = Level I Join
Trig_JoinRootlessBase(r) ==
  /\ r.act = "join" /\ OutOk(r) /\ Has_(r, "other") /\ Ok(r.other)
  /\ Netloc5(r.self) = <<>> /\ (Path5(r.self) = <<>> \/ Path5(r.self)[1] # SLASH)
  /\ LET j == Join(ModelOf(r.self), ModelOf(r.other.ok)) O == r.out.ok IN
       j = Url(Scheme5(O), Netloc5(O), Path5(O), Query5(O), Frag5(O))
\* Dev_OrderingOnRawTuple: equal by == but ordered by the raw tuple; observed = Level I
Trig_OrderingOnRawTuple(r) ==
  /\ r.act = "cmp" /\ NormKey5(r.a) = NormKey5(r.b) /\ V(r.a.val) # V(r.b.val)
  /\ r.lt = Lt(ModelOf(r.a), ModelOf(r.b)) /\ r.gt = Gt(ModelOf(r.a), ModelOf(r.b))
  /\ r.le = Le(ModelOf(r.a), ModelOf(r.b)) /\ r.ge = Ge(ModelOf(r.a), ModelOf(r.b))
\* Dev_WithSuffixRequotesRawName: observed raw name = PATH_QUOTER applied to the RAW stem + suffix (Level I)
Trig_WithSuffixRequotes(r) ==
  /\ r.act = "alt" /\ r.family = "with_suffix" /\ Ok(r.outs[1]) /\ Ok(r.self.raw_name) /\ Ok(r.self.raw_suffix)
  /\ LET stem == Stem(V(r.self.raw_name), V(r.self.raw_suffix)) IN
       /\ QuoteC(PATH_QUOTER, stem) # stem                                         \* trigger: the raw stem is not quoting-stable
       /\ V(r.outs[1].ok.raw_name) = QuoteC(PATH_QUOTER, stem \o r.args.x)          \* observed = deviant prediction
Attribution(r) ==
  IF r.act \in {"alloc_sweep", "boundary", "pair"} THEN {} ELSE
  IF r.act = "alt" THEN (IF Trig_WithSuffixRequotes(r) THEN {"Dev_WithSuffixRequotesRawName"} ELSE {}) ELSE
  IF r.act \in {"cmp", "cmp3"} THEN (IF r.act = "cmp" /\ Trig_OrderingOnRawTuple(r) THEN {"Dev_OrderingOnRawTuple"} ELSE {}) ELSE
  (IF OutOk(r) THEN ObsAttribution(r.out.ok) ELSE {})
  \cup (IF Trig_JoinRootlessBase(r) THEN {"Dev_JoinRootlessBase"} ELSE {})
  \* Dev_HumanReprNfkcUserinfo: user/password contain a character whose NFKC form has a delimiter; human_repr() shows it
  \* unescaped and the constructor's NFKC screen then rejects the string
  \cup (IF Has_(r, "human") /\ ~Ok(r.human) /\ IsValueError(r.human) /\ OutOk(r)
           /\ (\/ ("user" \in DOMAIN r.out.ok /\ Ok(r.out.ok.user) /\ V(r.out.ok.user) # None /\ HasAny(V(r.out.ok.user)[1], NfkcDelims))
               \/ ("password" \in DOMAIN r.out.ok /\ Ok(r.out.ok.password) /\ V(r.out.ok.password) # None
                     /\ HasAny(V(r.out.ok.password)[1], NfkcDelims)))
        THEN {"Dev_HumanReprNfkcUserinfo"} ELSE {})
  \* observation-based form of Dev_BracketedNonIPv6LosesBrackets: a stored host with ':' that is not an IPv6 address
  \cup (IF OutOk(r) /\ "raw_host" \in DOMAIN r.out.ok /\ Ok(r.out.ok.raw_host) /\ V(r.out.ok.raw_host) # None
           /\ Has(V(r.out.ok.raw_host)[1], COLON) /\ CanonIPv6Host(V(r.out.ok.raw_host)[1]) = <<>>
        THEN {"Dev_BracketedNonIPv6LosesBrackets"} ELSE {})
  \* ... or the RECEIVER is such a URL (its eagerly cached host still reads; what a modifier derives from the stored
  \* authority no longer parses)
  \cup (IF Has_(r, "self") /\ "raw_host" \in DOMAIN r.self /\ Ok(r.self.raw_host) /\ V(r.self.raw_host) # None
           /\ Has(V(r.self.raw_host)[1], COLON) /\ CanonIPv6Host(V(r.self.raw_host)[1]) = <<>>
        THEN {"Dev_BracketedNonIPv6LosesBrackets"} ELSE {})
  \* ... or only the five parts of the receiver were recorded: its str() worked (from the constructor's eager entries) although
  \* the STORED authority does not parse any more -- which only the bracket loss produces on an auto-encoding route
  \cup (IF Has_(r, "self") /\ "val" \in DOMAIN r.self /\ Ok(r.self.val) /\ Netloc5(r.self) # <<>>
           /\ "str" \in DOMAIN r.self /\ Ok(r.self.str) /\ "exc" \in DOMAIN SplitNetloc(Netloc5(r.self))
        THEN {"Dev_BracketedNonIPv6LosesBrackets"} ELSE {})
  \* Dev_MakeChildClimbEatsRoot: '/' and joinpath with a '..' that climbs above the root (trigger only)
  \cup (IF r.act \in {"truediv", "joinpath"} /\ Has_(r, "self") /\ "parts" \in DOMAIN r.self /\ Ok(r.self.parts)
           /\ ClimbsAboveRoot(OldSegs(r.self) \o NewSegs(IF r.act = "truediv" THEN <<r.args.v>> ELSE r.args.vs))
           /\ Agreement(r) = "agree"
        THEN {"Dev_MakeChildClimbEatsRoot"} ELSE {})
  \* (for C09 / C03 additionally: only the host-derived accessors may differ)
  \cup (IF ((Has_(r, "self") /\ EmptyHostObs(r.self)) \/ (OutOk(r) /\ EmptyHostObs(r.out.ok))
             \/ (Has_(r, "self_after") /\ EmptyHostObs(r.self_after)))
           /\ (Prop = "C09" /\ OutOk(r) /\ Has_(r, "twin") =>
                 UNION {C09_TwinDiff(r.out.ok, r.twin[k]) : k \in DOMAIN r.twin}
                   \subseteq {"authority", "host", "host_port_subcomponent", "host_subcomponent", "human_repr", "raw_host"})
           /\ (Prop = "C09" /\ Has_(r, "self_after") /\ Has_(r, "self_after_twin") =>
                 C09_TwinDiff(r.self_after, r.self_after_twin)
                   \subseteq {"authority", "host", "host_port_subcomponent", "host_subcomponent", "human_repr", "raw_host"})
           /\ (Prop = "C03" /\ OutOk(r) /\ Has_(r, "reparse") => C03_DiffFields(r.out.ok, r.reparse) \subseteq {"host", "raw_host", "reparse-raises"})
        THEN {"Dev_EmptyHost"} ELSE {})
  \* Dev_QueryDecodeReplaces: trigger (an ill-formed escape run in the raw query) AND observed = Level I's replacement decoding
  \cup (IF OutOk(r) /\ "raw_query_string" \in DOMAIN r.out.ok /\ Ok(r.out.ok.raw_query_string) /\ HasBadEscapeRun(V(r.out.ok.raw_query_string), 1)
           /\ "query" \in DOMAIN r.out.ok /\ Ok(r.out.ok.query) /\ V(r.out.ok.query) = QueryPairsReplace(V(r.out.ok.raw_query_string))
        THEN {"Dev_QueryDecodeReplaces"} ELSE {})
  \* (trigger AND the observed result is what Level I -- which contains the deviation -- predicts)
  \cup (IF Trig_BracketedNonIPv6(r) /\ Agreement(r) = "agree" THEN {"Dev_BracketedNonIPv6LosesBrackets"} ELSE {})
  \* Dev_MultiDictUpdateIndexShift: the faithful and the intended drop-tails loop give different queries for this receiver
  \* and argument (trigger), and the observed result is the faithful one
  \cup (IF r.act = "update_query" /\ Has_(r, "self") /\ Ok(r.self.val) /\ "be" \in DOMAIN r /\ Agreement(r) = "agree"
           /\ UpdateQueryWith(TRUE, r.be, Five(r.self), r.args.q) # UpdateQueryWith(FALSE, r.be, Five(r.self), r.args.q)
        THEN {"Dev_MultiDictUpdateIndexShift"} ELSE {})

\* accessor level: the fields of an observation that differ from what Level I derives from the five parts
\* (objects whose authority was parsed EAGERLY by the constructor may differ for an empty host: Dev_EmptyHost)
AccessorDrift(o) ==
  IF ~("val" \in DOMAIN o /\ Ok(o.val)) \/ Len(Path5(o)) + Len(Query5(o)) + Len(Netloc5(o)) + Len(Frag5(o)) > 300 THEN {}
  ELSE LET u5 == Five(o) IN {f \in AccessorNames \cap DOMAIN o : ~IsGray(AccM(f, u5)) /\ o[f] # AccM(f, u5)}

\* human_repr() against Level I (records that carry the printable set: C18)
HumanAgreement(r) ==
  IF ~(OutOk(r) /\ Has_(r, "printable") /\ "human_repr" \in DOMAIN r.out.ok /\ Ok(r.out.ok.human_repr)) THEN "n/a"
  ELSE LET h == HumanRepr(Five(r.out.ok), Range(r.printable)) IN
       IF IsGray(h) THEN "gray" ELSE IF IsOK(h) /\ h.ok = V(r.out.ok.human_repr) THEN "agree" ELSE "drift"

VARIABLE l
TInit == l = 1 /\ TLCSet(1, [n |-> 0, applicable |-> 0, agree |-> 0, modelled |-> 0, gray |-> 0, accessors |-> 0, accessor_drift |-> 0, human_agree |-> 0, human_drift |-> 0])
TNext ==
  /\ l <= Len(Recs)
  /\ LET r  == Recs[l]
         cs == Checks(r)
         failing == {c[1] : c \in {x \in cs : ~x[3]}}
     IN /\ IF failing = {} THEN TRUE ELSE PrintT(<<"VERDICT", r.id, failing, Attribution(r)>>)
        /\ IF failing # {} /\ Prop = "C19" /\ OutOk(r) THEN PrintT(<<"DIFF", r.id, C19_BadAccessors(r.out.ok)>>) ELSE TRUE
        /\ IF failing # {} /\ Prop = "C03" THEN PrintT(<<"DIFF", r.id, C03_DiffFields(r.out.ok, r.reparse)>>) ELSE TRUE
        /\ IF failing # {} /\ Prop = "C09"
           THEN PrintT(<<"DIFF", r.id, (IF OutOk(r) /\ Has_(r, "twin") THEN UNION {C09_TwinDiff(r.out.ok, r.twin[k]) : k \in DOMAIN r.twin} ELSE {})
                                       \cup (IF Has_(r, "self_after") /\ Has_(r, "self_after_twin") THEN C09_TwinDiff(r.self_after, r.self_after_twin) ELSE {})>>) ELSE TRUE
        /\ LET ag == Agreement(r) IN
           /\ IF ag = "drift" THEN PrintT(<<"DRIFT", r.id>>) ELSE TRUE
           /\ TLCSet(1, [n |-> TLCGet(1).n + 1,
                         applicable |-> TLCGet(1).applicable + Cardinality({x \in cs : x[2]}),
                         agree |-> TLCGet(1).agree + (IF ag = "agree" THEN 1 ELSE 0),
                         modelled |-> TLCGet(1).modelled + (IF ag \in {"agree", "drift"} THEN 1 ELSE 0),
                         gray |-> TLCGet(1).gray + (IF ag = "gray" THEN 1 ELSE 0),
                         accessors |-> TLCGet(1).accessors + (IF OutOk(r) THEN Cardinality(DOMAIN r.out.ok) ELSE 0),
                         accessor_drift |-> TLCGet(1).accessor_drift + (IF OutOk(r) THEN Cardinality(AccessorDrift(r.out.ok)) ELSE 0),
                         human_agree |-> TLCGet(1).human_agree + (IF HumanAgreement(r) = "agree" THEN 1 ELSE 0),
                         human_drift |-> TLCGet(1).human_drift + (IF HumanAgreement(r) = "drift" THEN 1 ELSE 0)])
           /\ IF HumanAgreement(r) = "drift" THEN PrintT(<<"HDRIFT", r.id>>) ELSE TRUE
           /\ IF OutOk(r) /\ AccessorDrift(r.out.ok) # {} THEN PrintT(<<"ADRIFT", r.id, AccessorDrift(r.out.ok)>>) ELSE TRUE
  /\ l' = l + 1
Accepted == /\ PrintT(<<"STATS", TLCGet(1)>>)
            /\ TLCGet("stats").diameter - 1 = Len(Recs)
=============================================================================
