------------------------------ MODULE TraceUrl ------------------------------
(***************************************************************************)
(* Trace specification for URL-level observations.  One record = one       *)
(* transition of the URL value machine observed on the real code:          *)
(*   [id, act, args, self (Obs of the receiver, absent for creators),      *)
(*    other (Obs of a URL argument), out ([ok |-> Obs] | [exc |-> type]),  *)
(*    reparse, twin, ...]                                                  *)
(* TLC evaluates the Level A clauses of property Prop on every record;     *)
(* verdicts are total (failing clauses are printed, the record consumed).  *)
(***************************************************************************)
EXTENDS ContractUrl, ImplUrl, Json, IOUtils, TLC, TLCExt
CONSTANT Prop

Recs == JsonDeserialize(IOEnv.TRACE_FILE)
Has_(r, f) == f \in DOMAIN r
OutOk(r) == Ok(r.out)

\* ---------------------------------------------------------------- C07
C07_Checks(r) ==
  (IF r.act = "ctor" /\ OutOk(r) THEN
      {<<"C07.decompose", TRUE,
         IF r.args.encoded THEN C07_DecomposeEncoded(r.args.s, r.out.ok) ELSE C07_DecomposeAuto(r.args.s, r.out.ok)>>}
   ELSE {})
  \cup (IF r.act = "ctor" /\ ~OutOk(r) /\ IsValueError(r.out) THEN
      {<<"C07.mustaccept", C07_MustAccept(r.args.s), ~C07_MustAccept(r.args.s)>>}
   ELSE {})
  \cup (IF OutOk(r) THEN
      {<<"C07.accessors", TRUE, C07_AccessorsMatchParts(r.out.ok)>>,
       <<"C07.authsplit", Netloc5(r.out.ok) # <<>>, C07_AuthoritySplit(r.out.ok)>>,
       <<"C07.recompose", Ok(r.out.ok.str), C07_Recompose(r.out.ok)>>}
   ELSE {})

Checks(r) ==
  CASE Prop = "C07" -> C07_Checks(r)
    [] OTHER -> {}

\* ------------------------------------------------- attribution to named deviations of Level I
\* (trigger predicate AND observed = what Level I predicts for the deviation)
ModelOf(o) == Url(Scheme5(o), Netloc5(o), Path5(o), Query5(o), Frag5(o))
StrAsModel(o) == Ok(o.str) /\ LET m == Str(ModelOf(o)) IN IsOK(m) /\ m.ok = V(o.str)
Trig_RootlessPathGainsSlashInStr(o) ==
  /\ Scheme5(o) # <<>> /\ Scheme5(o) \in UsesNetloc /\ Netloc5(o) = <<>>
  /\ Path5(o) # <<>> /\ Path5(o)[1] # SLASH /\ StrAsModel(o)
Trig_FirstSegmentColon(o) ==
  /\ Scheme5(o) = <<>> /\ Netloc5(o) = <<>>
  /\ LET c == Find(Path5(o), COLON) IN c > 1 /\ \A k \in 1..(c - 1) : Path5(o)[k] \in SchemeChars
  /\ StrAsModel(o)
\* str() rebuilds the authority from its parts when the port is the scheme default; with an EMPTY host
\* (only possible with encoded=True, e.g. 'ftp://u@:21/') make_netloc(host=None) returns '' and the
\* whole authority -- userinfo included -- disappears from the string
Trig_EmptyHostDefaultPortStr(o) ==
  /\ Netloc5(o) # <<>> /\ SplitAuthority(Netloc5(o)).host = <<>>
  /\ Ok(o.explicit_port) /\ V(o.explicit_port) # None /\ V(o.explicit_port) = DefaultPort(Scheme5(o))
  /\ StrAsModel(o)
ObsAttribution(o) ==
  (IF Trig_EmptyHostDefaultPortStr(o) THEN {"Dev_EmptyHostDefaultPortStr"} ELSE {}) \cup
  (IF Trig_RootlessPathGainsSlashInStr(o) THEN {"Dev_RootlessPathGainsSlashInStr"} ELSE {})
  \cup (IF Trig_FirstSegmentColon(o) THEN {"Dev_FirstSegmentColon"} ELSE {})
\* Dev_BracketedNonIPv6LosesBrackets: _encode_host re-brackets only what ip_address() accepts, so an
\* IPvFuture literal or bracketed junk loses its brackets in the stored authority (trigger only)
HostInfoOf(A) == LET at == RFind(A, AT) IN IF at = 0 THEN A ELSE From(A, at + 1)
Trig_BracketedNonIPv6(r) ==
  /\ r.act = "ctor" /\ ~r.args.encoded /\ OutOk(r)
  /\ \E gray \in BOOLEAN :
       LET a == AppendixBWith(StripWhatwg(r.args.s), gray) IN
       Has(HostInfoOf(a.authority), LBR) /\ ~Has(HostInfoOf(Netloc5(r.out.ok)), LBR)
Attribution(r) ==
  (IF OutOk(r) THEN ObsAttribution(r.out.ok) ELSE {})
  \cup (IF Trig_BracketedNonIPv6(r) THEN {"Dev_BracketedNonIPv6LosesBrackets"} ELSE {})

VARIABLE l
TInit == l = 1 /\ TLCSet(1, [n |-> 0, applicable |-> 0])
TNext ==
  /\ l <= Len(Recs)
  /\ LET r  == Recs[l]
         cs == Checks(r)
         failing == {c[1] : c \in {x \in cs : ~x[3]}}
     IN /\ IF failing = {} THEN TRUE ELSE PrintT(<<"VERDICT", r.id, failing, Attribution(r)>>)
        /\ TLCSet(1, [n |-> TLCGet(1).n + 1,
                      applicable |-> TLCGet(1).applicable + Cardinality({x \in cs : x[2]})])
  /\ l' = l + 1
Accepted == /\ PrintT(<<"STATS", TLCGet(1)>>)
            /\ TLCGet("stats").diameter - 1 = Len(Recs)
=============================================================================
