---------------------------- MODULE ContractUrl ----------------------------
(***************************************************************************)
(* LEVEL A -- URL-level contracts: the listed properties as clauses over   *)
(* OBSERVATIONS (records of public accessor values), never over yarl's     *)
(* internals.  One named operator per clause so that a rejection names     *)
(* what failed.  An observation o has one field per accessor, each         *)
(* [ok |-> value] or [exc |-> "Type"]; text = Seq(Nat); option = 0/1-tuple.*)
(***************************************************************************)
EXTENDS Rfc3986, ContractQuoting

Ok(f)  == "ok" \in DOMAIN f
V(f)   == f.ok
None   == <<>>
Some(x) == <<x>>
IsValueError(f) == ~Ok(f) /\ f.exc \in {"ValueError", "UnicodeError", "UnicodeDecodeError", "UnicodeEncodeError", "IDNAError", "InvalidCodepoint", "InvalidCodepointContext", "IDNABidiError"}

\* the five stored parts
Scheme5(o) == V(o.val)[1]
Netloc5(o) == V(o.val)[2]
Path5(o)   == V(o.val)[3]
Query5(o)  == V(o.val)[4]
Frag5(o)   == V(o.val)[5]

DefaultPort(scheme) ==
  CASE scheme = <<104,116,116,112>> -> Some(80)          \* http
    [] scheme = <<104,116,116,112,115>> -> Some(443)     \* https
    [] scheme = <<119,115>> -> Some(80)                  \* ws
    [] scheme = <<119,115,115>> -> Some(443)             \* wss
    [] scheme = <<102,116,112>> -> Some(21)              \* ftp
    [] OTHER -> None

\* ======================================================================== C07
\* --- decomposition ------------------------------------------------------
HasDotish(p) == Has(p, DOT) \/ \E i \in 1..Len(p) : IsPctAt(p, i) /\ PctByte(p, i) = DOT
IpLooking(h) == h # <<>> /\ (Last(h) \in Digit \/ Has(h, COLON))

C07_DecomposeEncoded(s, o) ==
  \E gray \in BOOLEAN :
    LET a == AppendixBWith(StripWhatwg(s), gray) IN
      /\ Scheme5(o) = LowerS(a.scheme)
      /\ Netloc5(o) = a.authority
      /\ Path5(o) = a.path
      /\ Query5(o) = a.query
      /\ Frag5(o) = a.fragment

SameOrBothEmpty(k, in, out) == IF HasSurrogate(in) THEN TRUE ELSE SameMeaning(k, TRUE, in, out)

C07_PortTextAgrees(pin, pout) ==
  IF pin = <<>> THEN pout = <<>>
  ELSE IF AllDigits(pin) /\ Len(pin) <= 9 THEN AllDigits(pout) /\ Len(pout) <= 9 /\ DigitsVal(pin) = DigitsVal(pout)
  ELSE TRUE      \* spellings int() tolerates but the RFC does not: unspecified

C07_DecomposeAuto(s, o) ==
  \E gray \in BOOLEAN :
    LET a  == AppendixBWith(StripWhatwg(s), gray)
        sa == SplitAuthority(a.authority)
        so == SplitAuthority(Netloc5(o)) IN
      /\ Scheme5(o) = LowerS(a.scheme)
      \* an authority whose host is empty (e.g. "//@", "//:") may canonicalise to no authority at all
      /\ (a.authority # <<>> /\ sa.host # <<>>) => Netloc5(o) # <<>>
      /\ a.authority = <<>> => Netloc5(o) = <<>>
      /\ (a.authority # <<>> /\ ~sa.oddBrackets) =>
            /\ SameOrBothEmpty("user", sa.user, so.user)
            /\ (sa.hasPassword /\ sa.user # <<>>) => so.hasPassword
            /\ SameOrBothEmpty("password", sa.password, so.password)
            /\ C07_PortTextAgrees(sa.port, so.port)
            /\ (IsAscii(sa.host) /\ ~IpLooking(sa.host) /\ ~sa.bracketed) => so.host = LowerS(sa.host)
      /\ ~(a.authority # <<>> /\ HasDotish(a.path)) => SameOrBothEmpty("path", a.path, Path5(o))
      /\ SameOrBothEmpty("query", a.query, Query5(o))
      /\ SameOrBothEmpty("fragment", a.fragment, Frag5(o))

\* --- raw accessors are views of the five parts ---------------------------
C07_AccessorsMatchParts(o) ==
  /\ Ok(o.scheme) /\ V(o.scheme) = Scheme5(o)
  /\ Ok(o.raw_authority) /\ V(o.raw_authority) = Netloc5(o)
  /\ Ok(o.raw_path) /\ V(o.raw_path) = (IF Path5(o) = <<>> /\ Netloc5(o) # <<>> THEN <<SLASH>> ELSE Path5(o))
  /\ Ok(o.raw_query_string) /\ V(o.raw_query_string) = Query5(o)
  /\ Ok(o.raw_fragment) /\ V(o.raw_fragment) = Frag5(o)

\* --- authority sub-split ---------------------------------------------------
C07_PortOk(portText, f) ==
  IF portText = <<>> THEN Ok(f) /\ V(f) = None
  ELSE IF AllDigits(portText) THEN
       (IF Len(LStripSet(portText, {48})) <= 5 /\ DigitsVal(LStripSet(portText, {48})) <= 65535
        THEN Ok(f) /\ V(f) = Some(DigitsVal(LStripSet(portText, {48})))
        ELSE IsValueError(f))
  ELSE IF ~HasAny(portText, Digit) /\ IsAscii(portText) THEN IsValueError(f)
  ELSE TRUE
C07_AuthoritySplit(o) ==
  LET A == Netloc5(o) sa == SplitAuthority(A) IN
  IF A = <<>> THEN
      /\ Ok(o.raw_user) /\ V(o.raw_user) = None
      /\ Ok(o.raw_password) /\ V(o.raw_password) = None
      /\ Ok(o.raw_host) /\ V(o.raw_host) \in {None, Some(<<>>)}    \* None vs '' is C09's subject
      /\ Ok(o.explicit_port) /\ V(o.explicit_port) = None
  ELSE sa.oddBrackets \/
      \* a malformed port makes every netloc accessor raise ValueError: allowed
      (IF ~Ok(o.explicit_port) THEN C07_PortOk(sa.port, o.explicit_port)
       ELSE
        /\ Ok(o.raw_user) /\ V(o.raw_user) = (IF sa.user = <<>> THEN None ELSE Some(sa.user))
        /\ Ok(o.raw_password) /\ V(o.raw_password) = (IF sa.hasPassword THEN Some(sa.password) ELSE None)
        /\ Ok(o.raw_host) /\ (IF sa.host = <<>> THEN V(o.raw_host) \in {None, Some(<<>>)} ELSE V(o.raw_host) = Some(sa.host))
        /\ C07_PortOk(sa.port, o.explicit_port))

\* --- re-composition ---------------------------------------------------------
\* authority with a default port dropped (the one normalisation str() documents)
DropDefaultPort(scheme, A) ==
  LET sa == SplitAuthority(A) dp == DefaultPort(scheme) IN
  IF sa.hasPort /\ dp # None /\ AllDigits(sa.port) /\ Len(sa.port) <= 5 /\ DigitsVal(sa.port) = dp[1]
  THEN Upto(A, Len(A) - Len(sa.port) - 1) ELSE A
C07_Recompose(o) ==
  Ok(o.str) =>
  \E gray \in BOOLEAN :
    LET b == AppendixBWith(V(o.str), gray) IN
      /\ LowerS(b.scheme) = Scheme5(o)
      /\ \/ SplitAuthority(Netloc5(o)).oddBrackets     \* malformed-but-accepted brackets: unspecified (reading f)
         \/ b.authority = Netloc5(o)
         \/ b.authority = DropDefaultPort(Scheme5(o), Netloc5(o))
         \* re-assembling the authority without its default port may also drop an EMPTY userinfo ("@h:80" -> "h")
         \/ LET d == DropDefaultPort(Scheme5(o), Netloc5(o)) IN
              d # Netloc5(o) /\ d # <<>> /\ d[1] = AT /\ b.authority = Tail(d)
      /\ \/ b.path = Path5(o)
         \/ (Netloc5(o) # <<>> /\ {b.path, Path5(o)} = {<<>>, <<SLASH>>})
      /\ b.query = Query5(o)
      /\ b.fragment = Frag5(o)

\* --- a valid reference must be decomposed, not refused ------------------------
RECURSIVE AllLegalFrom(_, _, _)
AllLegalFrom(L, t, i) ==
  IF i > Len(t) THEN TRUE
  ELSE IF t[i] = PCT THEN IsPctAt(t, i) /\ AllLegalFrom(L, t, i + 3)
  ELSE t[i] \in L /\ AllLegalFrom(L, t, i + 1)
\* conservative: references that are valid by the RFC grammar AND fall under no documented
\* extra restriction of yarl (empty host for http-like schemes, port range, IP literals, IDNA)
C07_MustAccept(s0) ==
  LET s == StripWhatwg(s0)
      a == AppendixB(s)
      d == FindIn(s, 1, {COLON, SLASH, QMARK, HASH})
      cand == IF d > 1 /\ s[d] = COLON THEN Upto(s, d - 1) ELSE <<>>
      sa == SplitAuthority(a.authority) IN
  /\ ~SchemeGray(cand)
  /\ AllLegalFrom(PChar \cup {SLASH}, a.path, 1)
  /\ AllLegalFrom(PChar \cup {SLASH, QMARK}, a.query, 1)
  /\ AllLegalFrom(PChar \cup {SLASH, QMARK}, a.fragment, 1)
  /\ a.hasAuth =>
       /\ AllLegalFrom(Unreserved \cup SubDelims \cup {COLON}, IF sa.hasUserinfo THEN Upto(a.authority, RFind(a.authority, AT) - 1) ELSE <<>>, 1)
       /\ sa.host # <<>> /\ ~HasAny(sa.host, {LBR, RBR}) /\ ~Has(a.authority, LBR) /\ ~Has(a.authority, RBR)
       /\ AllLegalFrom(Unreserved \cup SubDelims, sa.host, 1)
       /\ (sa.port = <<>> \/ (AllDigits(sa.port) /\ Len(sa.port) <= 5 /\ DigitsVal(sa.port) <= 65535))
=============================================================================
