---------------------------- MODULE ContractUrl ----------------------------
(***************************************************************************)
(* LEVEL A -- URL-level contracts: the listed properties as clauses over   *)
(* OBSERVATIONS (records of public accessor values), never over yarl's     *)
(* internals.  One named operator per clause so that a rejection names     *)
(* what failed.  An observation o has one field per accessor, each         *)
(* [ok |-> value] or [exc |-> "Type"]; text = Seq(Nat); option = 0/1-tuple.*)
(***************************************************************************)
EXTENDS Rfc3986, ContractQuoting, Host

Ok(f)  == "ok" \in DOMAIN f
V(f)   == f.ok
None   == <<>>
Some(x) == <<x>>
IsValueError(f) == ~Ok(f) /\ f.exc \in {"ValueError", "UnicodeError", "UnicodeDecodeError", "UnicodeEncodeError", "IDNAError", "InvalidCodepoint", "InvalidCodepointContext", "IDNABidiError"}

\* the five stored parts
Scheme5(o) == V(o.val)[1]
Netloc5(o) == V(o.val)[2]
Path5(o)   == V(o.val)[3]
Query5(o)  == V(o.val)[4]
Frag5(o)   == V(o.val)[5]

DefaultPort(scheme) ==
  CASE scheme = <<104,116,116,112>> -> Some(80)          \* http
    [] scheme = <<104,116,116,112,115>> -> Some(443)     \* https
    [] scheme = <<119,115>> -> Some(80)                  \* ws
    [] scheme = <<119,115,115>> -> Some(443)             \* wss
    [] scheme = <<102,116,112>> -> Some(21)              \* ftp
    [] OTHER -> None

\* ======================================================================== C07
\* --- decomposition ------------------------------------------------------
HasDotish(p) == Has(p, DOT) \/ \E i \in 1..Len(p) : IsPctAt(p, i) /\ PctByte(p, i) = DOT
IpLooking(h) == h # <<>> /\ (Last(h) \in Digit \/ Has(h, COLON))

C07_DecomposeEncoded(s, o) ==
  \E gray \in BOOLEAN :
    LET a == AppendixBWith(StripWhatwg(s), gray) IN
      /\ Scheme5(o) = LowerS(a.scheme)
      /\ Netloc5(o) = a.authority
      /\ Path5(o) = a.path
      /\ Query5(o) = a.query
      /\ Frag5(o) = a.fragment

SameOrBothEmpty(k, in, out) == IF HasSurrogate(in) THEN TRUE ELSE SameMeaning(k, TRUE, in, out)

C07_PortTextAgrees(pin, pout) ==
  IF pin = <<>> THEN pout = <<>>
  ELSE IF AllDigits(pin) /\ Len(pin) <= 9 THEN AllDigits(pout) /\ Len(pout) <= 9 /\ DigitsVal(pin) = DigitsVal(pout)
  ELSE TRUE      \* spellings int() tolerates but the RFC does not: unspecified

C07_DecomposeAuto(s, o) ==
  \E gray \in BOOLEAN :
    LET a  == AppendixBWith(StripWhatwg(s), gray)
        sa == SplitAuthority(a.authority)
        so == SplitAuthority(Netloc5(o)) IN
      /\ Scheme5(o) = LowerS(a.scheme)
      \* an authority whose host is empty (e.g. "//@", "//:") may canonicalise to no authority at all
      /\ (a.authority # <<>> /\ sa.host # <<>>) => Netloc5(o) # <<>>
      /\ a.authority = <<>> => Netloc5(o) = <<>>
      /\ (a.authority # <<>> /\ ~sa.oddBrackets) =>
            /\ SameOrBothEmpty("user", sa.user, so.user)
            /\ (sa.hasPassword /\ sa.user # <<>>) => so.hasPassword
            /\ SameOrBothEmpty("password", sa.password, so.password)
            /\ C07_PortTextAgrees(sa.port, so.port)
            /\ (IsAscii(sa.host) /\ ~IpLooking(sa.host) /\ ~sa.bracketed) => so.host = LowerS(sa.host)
      /\ ~(a.authority # <<>> /\ HasDotish(a.path)) => SameOrBothEmpty("path", a.path, Path5(o))
      /\ SameOrBothEmpty("query", a.query, Query5(o))
      /\ SameOrBothEmpty("fragment", a.fragment, Frag5(o))

\* --- raw accessors are views of the five parts ---------------------------
C07_AccessorsMatchParts(o) ==
  /\ Ok(o.scheme) /\ V(o.scheme) = Scheme5(o)
  /\ Ok(o.raw_authority) /\ V(o.raw_authority) = Netloc5(o)
  /\ Ok(o.raw_path) /\ V(o.raw_path) = (IF Path5(o) = <<>> /\ Netloc5(o) # <<>> THEN <<SLASH>> ELSE Path5(o))
  /\ Ok(o.raw_query_string) /\ V(o.raw_query_string) = Query5(o)
  /\ Ok(o.raw_fragment) /\ V(o.raw_fragment) = Frag5(o)

\* --- authority sub-split ---------------------------------------------------
C07_PortOk(portText, f) ==
  IF portText = <<>> THEN Ok(f) /\ V(f) = None
  ELSE IF AllDigits(portText) THEN
       (IF Len(LStripSet(portText, {48})) <= 5 /\ DigitsVal(LStripSet(portText, {48})) <= 65535
        THEN Ok(f) /\ V(f) = Some(DigitsVal(LStripSet(portText, {48})))
        ELSE IsValueError(f))
  ELSE IF ~HasAny(portText, Digit) /\ IsAscii(portText) THEN IsValueError(f)
  ELSE TRUE
C07_AuthoritySplit(o) ==
  LET A == Netloc5(o) sa == SplitAuthority(A) IN
  IF A = <<>> THEN
      /\ Ok(o.raw_user) /\ V(o.raw_user) = None
      /\ Ok(o.raw_password) /\ V(o.raw_password) = None
      /\ Ok(o.raw_host) /\ V(o.raw_host) \in {None, Some(<<>>)}    \* None vs '' is C09's subject
      /\ Ok(o.explicit_port) /\ V(o.explicit_port) = None
  ELSE sa.oddBrackets \/
      \* a malformed port makes every netloc accessor raise ValueError: allowed
      (IF ~Ok(o.explicit_port) THEN C07_PortOk(sa.port, o.explicit_port)
       ELSE
        /\ Ok(o.raw_user) /\ V(o.raw_user) = (IF sa.user = <<>> THEN None ELSE Some(sa.user))
        /\ Ok(o.raw_password) /\ V(o.raw_password) = (IF sa.hasPassword THEN Some(sa.password) ELSE None)
        /\ Ok(o.raw_host) /\ (IF sa.host = <<>> THEN V(o.raw_host) \in {None, Some(<<>>)} ELSE V(o.raw_host) = Some(sa.host))
        /\ C07_PortOk(sa.port, o.explicit_port))

\* --- re-composition ---------------------------------------------------------
\* authority with a default port dropped (the one normalisation str() documents)
DropDefaultPort(scheme, A) ==
  LET sa == SplitAuthority(A) dp == DefaultPort(scheme) IN
  IF sa.hasPort /\ dp # None /\ (\/ (AllDigits(sa.port) /\ Len(LStripSet(sa.port, {48})) <= 5 /\ DigitsVal(LStripSet(sa.port, {48})) = dp[1])
                                \/ (sa.port # <<>> /\ ~AllDigits(sa.port)))      \* gray spelling ("+80", " 80"): unspecified
  THEN Upto(A, Len(A) - Len(sa.port) - 1) ELSE A
C07_Recompose(o) ==
  Ok(o.str) =>
  \E gray \in BOOLEAN :
    LET b == AppendixBWith(V(o.str), gray) IN
      /\ LowerS(b.scheme) = Scheme5(o)
      /\ \/ SplitAuthority(Netloc5(o)).oddBrackets     \* malformed-but-accepted brackets: unspecified (reading f)
         \/ b.authority = Netloc5(o)
         \/ b.authority = DropDefaultPort(Scheme5(o), Netloc5(o))
         \* re-assembling the authority without its default port may also drop an EMPTY userinfo ("@h:80" -> "h")
         \/ LET d == DropDefaultPort(Scheme5(o), Netloc5(o)) IN
              d # Netloc5(o) /\ d # <<>> /\ d[1] = AT /\ b.authority = Tail(d)
      /\ \/ b.path = Path5(o)
         \/ (Netloc5(o) # <<>> /\ {b.path, Path5(o)} = {<<>>, <<SLASH>>})
      /\ b.query = Query5(o)
      /\ b.fragment = Frag5(o)

\* --- a valid reference must be decomposed, not refused ------------------------
RECURSIVE AllLegalFrom(_, _, _)
AllLegalFrom(L, t, i) ==
  IF i > Len(t) THEN TRUE
  ELSE IF t[i] = PCT THEN IsPctAt(t, i) /\ AllLegalFrom(L, t, i + 3)
  ELSE t[i] \in L /\ AllLegalFrom(L, t, i + 1)
\* conservative: references that are valid by the RFC grammar AND fall under no documented
\* extra restriction of yarl (empty host for http-like schemes, port range, IP literals, IDNA)
C07_MustAccept(s0) ==
  LET s == StripWhatwg(s0)
      a == AppendixB(s)
      d == FindIn(s, 1, {COLON, SLASH, QMARK, HASH})
      cand == IF d > 1 /\ s[d] = COLON THEN Upto(s, d - 1) ELSE <<>>
      sa == SplitAuthority(a.authority) IN
  /\ ~SchemeGray(cand)
  /\ AllLegalFrom(PChar \cup {SLASH}, a.path, 1)
  /\ AllLegalFrom(PChar \cup {SLASH, QMARK}, a.query, 1)
  /\ AllLegalFrom(PChar \cup {SLASH, QMARK}, a.fragment, 1)
  /\ a.hasAuth =>
       /\ AllLegalFrom(Unreserved \cup SubDelims \cup {COLON}, IF sa.hasUserinfo THEN Upto(a.authority, RFind(a.authority, AT) - 1) ELSE <<>>, 1)
       /\ sa.host # <<>> /\ ~HasAny(sa.host, {LBR, RBR}) /\ ~Has(a.authority, LBR) /\ ~Has(a.authority, RBR)
       /\ AllLegalFrom(Unreserved \cup SubDelims, sa.host, 1)
       /\ (sa.port = <<>> \/ (AllDigits(sa.port) /\ Len(sa.port) <= 5 /\ DigitsVal(sa.port) <= 65535))

\* ======================================================================== C01
\* an accessor that raises is C19's subject, not a well-formedness failure
OptWellFormed(c, f) == ~Ok(f) \/ V(f) = None \/ WellFormed(c, V(f)[1])
\* (an IP-literal host may carry a zone id, which is kept verbatim -- C16 -- and may be non-ASCII: the repository's own
\* tests construct 'http://1.2.3.4%тест%42:123'; the string clause is judged for hosts without a zone id)
HostHasZone(o) == "raw_host" \in DOMAIN o /\ Ok(o.raw_host) /\ V(o.raw_host) # None /\ Has(V(o.raw_host)[1], PCT) /\ ~IsAscii(V(o.raw_host)[1])
C01_Ascii(o) == (Ok(o.str) /\ ~HostHasZone(o) /\ ~(\E i \in 1..Len(Netloc5(o)) : Netloc5(o)[i] >= 128 /\ Has(Netloc5(o), PCT))) => IsAscii(V(o.str))
C01_Components(o) ==
  /\ OptWellFormed("user", o.raw_user)
  /\ OptWellFormed("password", o.raw_password)
  /\ Ok(o.raw_path) /\ WellFormed("path", V(o.raw_path))
  /\ Ok(o.raw_query_string) /\ WellFormed("query", V(o.raw_query_string))
  /\ Ok(o.raw_fragment) /\ WellFormed("fragment", V(o.raw_fragment))
\* the scheme is outside C01 (C03 speaks of "RFC-valid scheme"): judged only when it is valid or empty
C01_SchemeSane(o) == Scheme5(o) = <<>> \/ SchemeGrammar(Scheme5(o))

\* ======================================================================== C02
Meaning(k, requote, in, out) == HasSurrogate(in) \/ SameMeaning(k, requote, in, out)
OptMeaning(k, in, f) ==        \* in: supplied text; f: observed optional raw accessor
  HasSurrogate(in) \/
  (Ok(f) /\ (IF in = <<>> THEN (V(f) = None \/ V(f) = Some(<<>>)) ELSE V(f) # None /\ Meaning(k, FALSE, in, V(f)[1])))
IsSuffixOf(a, b) == Len(a) <= Len(b) /\ From(b, Len(b) - Len(a) + 1) = a
HasDotSeg(p) == \E seg \in Range(Split(p, SLASH)) : seg \in {<<DOT>>, <<DOT, DOT>>}
Rooted(v) == IF v # <<>> /\ v[1] # SLASH THEN <<SLASH>> \o v ELSE v

C02_Ctor(s, o) ==
  \E gray \in BOOLEAN :
    LET a  == AppendixBWith(StripWhatwg(s), gray)
        sa == SplitAuthority(a.authority)
        so == SplitAuthority(Netloc5(o)) IN
      /\ (a.authority # <<>> /\ ~sa.oddBrackets /\ Netloc5(o) # <<>>) =>
            /\ SameOrBothEmpty("user", sa.user, so.user)
            /\ SameOrBothEmpty("password", sa.password, so.password)
      /\ ~(a.authority # <<>> /\ HasDotish(a.path)) => SameOrBothEmpty("path", a.path, Path5(o))
      /\ SameOrBothEmpty("query", a.query, Query5(o))
      /\ SameOrBothEmpty("fragment", a.fragment, Frag5(o))

\* pairs of a query argument whose values are all plain strings: <<key text, value text>>
\* simple values: strings, and numbers by their str() rendering (the text recorded with the value)
AllStrPairs(q) == \A i \in 1..Len(q.pairs) : q.pairs[i][2].t \in {"str", "int"} \/ (q.pairs[i][2].t = "float" /\ q.pairs[i][2].s \notin {<<110,97,110>>, <<105,110,102>>, <<45,105,110,102>>})
StrPairs(q) == [i \in 1..Len(q.pairs) |-> <<q.pairs[i][1], q.pairs[i][2].s>>]
\* ... the same with list / tuple values of a mapping expanded to one pair per element (C02 judges those too)
TextLikeTv(tv) == tv.t \in {"str", "int"} \/ (tv.t = "float" /\ tv.s \notin {<<110,97,110>>, <<105,110,102>>, <<45,105,110,102>>})
AllTextPairsX(q) == \A i \in 1..Len(q.pairs) :
   LET v == q.pairs[i][2] IN TextLikeTv(v) \/ (v.t \in {"list", "tuple"} /\ q.form \in {"mapping", "multidict", "kwargs"}
                                                /\ \A j \in 1..Len(v.items) : TextLikeTv(v.items[j]))
StrPairsX(q) == Flat([i \in 1..Len(q.pairs) |->
   LET k == q.pairs[i][1] v == q.pairs[i][2] IN
   IF v.t \in {"list", "tuple"} THEN [j \in 1..Len(v.items) |-> <<k, v.items[j].s>>] ELSE << <<k, v.s>> >>])
RawPieces(raw) == LET ps == Split(raw, AMP) IN
   IF raw = <<>> THEN <<>> ELSE [i \in 1..Len(ps) |-> LET pr == Partition(ps[i], EQ) IN <<pr[1], pr[3]>>]
C02_PairsKept(pairs, raw) ==
  LET pc == RawPieces(raw) IN
  /\ Len(pc) = Len(pairs)
  /\ \A i \in 1..Len(pairs) : Meaning("qpart", FALSE, pairs[i][1], pc[i][1]) /\ Meaning("qpart", FALSE, pairs[i][2], pc[i][2])

C02_Build(kw, o) ==
  /\ ("user" \in DOMAIN kw /\ Netloc5(o) # <<>> /\ kw.user # None) => OptMeaning("user", kw.user[1], o.raw_user)
  /\ ("password" \in DOMAIN kw /\ Netloc5(o) # <<>> /\ kw.password # None) =>
        (Ok(o.raw_password) /\ V(o.raw_password) # None /\ Meaning("password", FALSE, kw.password[1], V(o.raw_password)[1]))
  /\ ("path" \in DOMAIN kw /\ ~(Netloc5(o) # <<>> /\ Has(kw.path, DOT))) => Meaning("path", FALSE, kw.path, Path5(o))
  \* query_string is what counts whenever no (or an empty) query argument is given
  /\ ("query_string" \in DOMAIN kw /\ ("query" \notin DOMAIN kw \/ kw.query.form = "none" \/ (kw.query.form = "str" /\ kw.query.s = <<>>)
                                        \/ (kw.query.form \notin {"str", "none"} /\ kw.query.pairs = <<>>)))
        => Meaning("query", FALSE, kw.query_string, Query5(o))
  /\ ("fragment" \in DOMAIN kw) => Meaning("fragment", FALSE, kw.fragment, Frag5(o))
  /\ ("query" \in DOMAIN kw /\ kw.query.form \in {"mapping", "pairs", "tuplepairs", "multidict"} /\ AllTextPairsX(kw.query)
        /\ kw.query.pairs # <<>>) => C02_PairsKept(StrPairsX(kw.query), Query5(o))

C02_Modifier(act, args, self, o) ==
  CASE act = "with_user" -> (args.v # None => OptMeaning("user", args.v[1], o.raw_user))
    [] act = "with_password" -> (args.v # None =>
          (Ok(o.raw_password) /\ V(o.raw_password) # None /\ Meaning("password", FALSE, args.v[1], V(o.raw_password)[1])))
    [] act = "with_fragment" -> (args.v # None => Meaning("fragment", FALSE, args.v[1], Frag5(o)))
    [] act = "with_path" -> ((~args.encoded /\ ~(Netloc5(o) # <<>> /\ Has(args.v, DOT))) =>
          Meaning("path", FALSE, Rooted(args.v), Path5(o)))
    [] act = "with_name" -> (Ok(o.raw_name) /\ Meaning("path", FALSE, args.v, V(o.raw_name)))
    [] act = "with_suffix" -> (Ok(o.raw_name) /\
          (HasSurrogate(args.v) \/ IsSuffixOf(SkelIn("path", FALSE, args.v), SkelOut("path", V(o.raw_name)))))
    [] act = "truediv" -> ((~Has(args.v, DOT)) =>
          (HasSurrogate(args.v) \/ IsSuffixOf(SkelIn("path", FALSE, args.v), SkelOut("path", Path5(o)))))
    [] act = "joinpath" -> ((~args.encoded /\ args.vs # <<>> /\ \A i \in 1..Len(args.vs) : ~Has(args.vs[i], DOT)) =>
          LET v == Last(args.vs) IN
          (HasSurrogate(v) \/ IsSuffixOf(SkelIn("path", FALSE, v), SkelOut("path", Path5(o)))))
    [] act = "with_query" ->
          (IF args.q.form = "str" THEN Meaning("query", FALSE, args.q.s, Query5(o))
           ELSE IF args.q.form # "none" /\ AllTextPairsX(args.q) THEN C02_PairsKept(StrPairsX(args.q), Query5(o))
           ELSE TRUE)
    [] act = "extend_query" ->
          (IF args.q.form = "str" THEN (HasSurrogate(args.q.s) \/ IsSuffixOf(SkelIn("query", FALSE, args.q.s), SkelOut("query", Query5(o))))
           ELSE TRUE)
    [] OTHER -> TRUE
\* ... and what a modifier does NOT address keeps its meaning (the quantifier of C02 runs over "constructor, build, modifiers
\* and join": the decoded value a component got from the text that was supplied for it must survive every later modifier
\* that is about another component).  S: receiver, O: result; both hold canonical text, so escapes are read as escapes.
C02_UserKeepers == {"with_scheme", "with_password", "with_host", "with_port", "with_fragment", "with_query", "extend_query", "update_query",
                    "without_query_params", "with_path", "with_name", "with_suffix", "truediv", "joinpath", "parent"}
C02_PathKeepers == {"with_scheme", "with_user", "with_password", "with_host", "with_port", "with_fragment", "with_query", "extend_query",
                    "update_query", "without_query_params"}
C02_QueryKeepers == {"with_scheme", "with_user", "with_password", "with_host", "with_port", "with_fragment"}
C02_FragKeepers == (C02_QueryKeepers \ {"with_fragment"}) \cup {"with_query", "extend_query", "update_query", "without_query_params"}
KeptOpt(k, S, O, f) ==
  (Ok(S[f]) /\ Ok(O[f])) =>
     (IF V(S[f]) = None THEN V(O[f]) = None ELSE V(O[f]) # None /\ Meaning(k, TRUE, V(S[f])[1], V(O[f])[1]))
C02_Kept(act, args, S, O) ==
  /\ (act \in C02_UserKeepers /\ Netloc5(S) # <<>>) => KeptOpt("user", S, O, "raw_user")
  /\ ((act \in (C02_UserKeepers \ {"with_password"}) \/ (act = "with_user" /\ args.v # None)) /\ Netloc5(S) # <<>>)
        => KeptOpt("password", S, O, "raw_password")
  /\ act \in C02_PathKeepers => Meaning("path", TRUE, Path5(S), Path5(O))
  /\ act \in C02_QueryKeepers => Meaning("query", TRUE, Query5(S), Query5(O))
  /\ act \in C02_FragKeepers => Meaning("fragment", TRUE, Frag5(S), Frag5(O))
C02_KeptApplies(act) == act \in C02_UserKeepers \cup C02_PathKeepers
C02_ModifierApplies(act) == act \in {"with_user", "with_password", "with_fragment", "with_path", "with_name", "with_suffix",
                                     "truediv", "joinpath", "with_query", "extend_query"}

\* ======================================================================== C06
\* an unparseable port makes every authority accessor raise (C19's subject): vacuous then
OptDecode(rawf, f) == ~Ok(rawf) \/ (Ok(f) /\ V(f) = (IF V(rawf) = None THEN None ELSE Some(DecodePlain(V(rawf)[1]))))
SeqDecode(rawf, f) == Ok(rawf) /\ Ok(f) /\ Len(V(f)) = Len(V(rawf)) /\ \A i \in 1..Len(V(f)) : V(f)[i] = DecodePlain(V(rawf)[i])
C06_User(o)     == OptDecode(o.raw_user, o.user)
C06_Password(o) == OptDecode(o.raw_password, o.password)
C06_Path(o)     == Ok(o.path) /\ V(o.path) = DecodePlain(V(o.raw_path))
C06_PathSafe(o) == Ok(o.path_safe) /\ IsDecodePathSafe(V(o.raw_path), V(o.path_safe))
C06_Parts(o)    == SeqDecode(o.raw_parts, o.parts)
C06_Name(o)     == Ok(o.name) /\ Ok(o.raw_name) /\ V(o.name) = DecodePlain(V(o.raw_name))
C06_Suffix(o)   == Ok(o.suffix) /\ Ok(o.raw_suffix) /\ V(o.suffix) = DecodePlain(V(o.raw_suffix))
                   /\ SeqDecode(o.raw_suffixes, o.suffixes)
C06_Fragment(o) == Ok(o.fragment) /\ V(o.fragment) = DecodePlain(V(o.raw_fragment))
C06_QueryString(o) == Ok(o.query_string) /\ IsDecodeQueryString(V(o.raw_query_string), V(o.query_string))
C06_Query(o)    == Ok(o.query) /\ V(o.query) = QueryPairs(V(o.raw_query_string))
\* trigger of Dev_QueryDecodeReplaces: some escape run in the raw query is not well-formed UTF-8
RECURSIVE HasBadEscapeRun(_, _)
HasBadEscapeRun(t, i) ==
  IF i > Len(t) THEN FALSE
  ELSE IF IsPctAt(t, i) THEN
       LET n == Utf8Len(EscRun(t, i, 4)) IN IF n = 0 THEN TRUE ELSE HasBadEscapeRun(t, i + 3 * n)
  ELSE HasBadEscapeRun(t, i + 1)

\* read-back of supplied decoded values
NoDotUnderAuthority(o, v) == ~(Netloc5(o) # <<>> /\ HasDotSeg(v))
C06_ReadBack(act, args, o) ==
  CASE act = "with_user" -> ((args.v # None /\ ~HasSurrogate(args.v[1])) =>
          (Ok(o.user) /\ V(o.user) = (IF args.v[1] = <<>> THEN None ELSE args.v)))
    [] act = "with_password" -> ((args.v # None /\ ~HasSurrogate(args.v[1])) => (Ok(o.password) /\ V(o.password) = args.v))
    [] act = "with_fragment" -> ((args.v # None /\ ~HasSurrogate(args.v[1])) => (Ok(o.fragment) /\ V(o.fragment) = args.v[1]))
    [] act = "with_path" -> ((~args.encoded /\ ~HasSurrogate(args.v) /\ NoDotUnderAuthority(o, args.v)) =>
          (Ok(o.path) /\ V(o.path) = (IF args.v = <<>> /\ Netloc5(o) # <<>> THEN <<SLASH>> ELSE Rooted(args.v))))
    [] act = "with_name" -> (~HasSurrogate(args.v) => (Ok(o.name) /\ V(o.name) = args.v))
    [] act = "truediv" -> ((~HasSurrogate(args.v) /\ ~Has(args.v, SLASH) /\ args.v \notin {<<DOT>>, <<DOT, DOT>>}) =>
          (Ok(o.name) /\ V(o.name) = args.v))
    [] act = "with_query" -> ((args.q.form \in {"mapping", "pairs", "tuplepairs", "multidict", "kwargs"} /\ AllStrPairs(args.q)
                               /\ \A i \in 1..Len(args.q.pairs) : ~HasSurrogate(args.q.pairs[i][1]) /\ ~HasSurrogate(args.q.pairs[i][2].s)) =>
          (Ok(o.query) /\ V(o.query) = StrPairs(args.q)))
    [] OTHER -> TRUE
C06_ReadBackApplies(act) == act \in {"with_user", "with_password", "with_fragment", "with_path", "with_name", "truediv", "with_query"}
C06_ReadBackBuild(kw, o) ==
  /\ ("user" \in DOMAIN kw /\ Netloc5(o) # <<>> /\ kw.user # None /\ ~HasSurrogate(kw.user[1])) =>
        (Ok(o.user) /\ V(o.user) = (IF kw.user[1] = <<>> THEN None ELSE kw.user))
  /\ ("password" \in DOMAIN kw /\ Netloc5(o) # <<>> /\ kw.password # None /\ ~HasSurrogate(kw.password[1])) =>
        (Ok(o.password) /\ V(o.password) = kw.password)
  /\ ("path" \in DOMAIN kw /\ ~HasSurrogate(kw.path) /\ NoDotUnderAuthority(o, kw.path)) =>
        (Ok(o.path) /\ V(o.path) = (IF kw.path = <<>> /\ Netloc5(o) # <<>> THEN <<SLASH>> ELSE kw.path))
  /\ ("fragment" \in DOMAIN kw /\ ~HasSurrogate(kw.fragment)) => (Ok(o.fragment) /\ V(o.fragment) = kw.fragment)
  \* (an EMPTY query argument supplies nothing to read back: build() then takes query_string, if any)
  /\ ("query" \in DOMAIN kw /\ kw.query.form \in {"mapping", "pairs", "tuplepairs", "multidict"} /\ AllStrPairs(kw.query)
        /\ kw.query.pairs # <<>>
        /\ \A i \in 1..Len(kw.query.pairs) : ~HasSurrogate(kw.query.pairs[i][1]) /\ ~HasSurrogate(kw.query.pairs[i][2].s)) =>
        (Ok(o.query) /\ V(o.query) = StrPairs(kw.query))

\* ======================================================================== C11
SameF(a, b, f) == Ok(a[f]) /\ Ok(b[f]) /\ V(a[f]) = V(b[f])
SameAuthorityBut(S, O, skip) ==
  \A f \in ({"raw_user", "raw_password", "host_subcomponent", "explicit_port"} \ skip) : SameF(S, O, f)
SameTail(S, O) == Path5(O) = Path5(S) /\ Query5(O) = Query5(S) /\ Frag5(O) = Frag5(S)
OptTextArg(v, k, f) ==    \* argument option v reads back from optional raw accessor f as its canonical form
  IF v = None THEN Ok(f) /\ V(f) = None ELSE OptMeaning(k, v[1], f)
\* the host as WRITTEN in the stored authority (RFC split of the text, brackets included) survives the modifiers that are
\* about userinfo or port -- whatever the accessors say on both sides (judged for well-formed hosts)
HostTextKept(S, O) ==
  LET a == SplitAuthority(Netloc5(S)) b == SplitAuthority(Netloc5(O)) IN
  (~a.oddBrackets /\ a.host # <<>> /\ (IF a.bracketed THEN CanonIPv6Host(a.host) # <<>>
                                        ELSE ~Has(a.host, COLON) /\ AllLegalFrom(Unreserved \cup SubDelims \cup {PCT}, a.host, 1)))
  => (~b.oddBrackets /\ b.host = a.host /\ b.bracketed = a.bracketed)
C11_Frame(act, args, S, O) ==
  CASE act = "with_scheme" -> Scheme5(O) = LowerS(args.v) /\ Netloc5(O) = Netloc5(S) /\ SameTail(S, O)
    [] act = "with_user" ->
         /\ Scheme5(O) = Scheme5(S) /\ SameTail(S, O) /\ SameAuthorityBut(S, O, {"raw_user", "raw_password"}) /\ HostTextKept(S, O)
         /\ OptTextArg(args.v, "user", O.raw_user)
         /\ (IF args.v = None THEN Ok(O.raw_password) /\ V(O.raw_password) = None ELSE SameF(S, O, "raw_password"))
    [] act = "with_password" ->
         /\ Scheme5(O) = Scheme5(S) /\ SameTail(S, O) /\ SameAuthorityBut(S, O, {"raw_password"}) /\ HostTextKept(S, O)
         /\ (IF args.v = None THEN Ok(O.raw_password) /\ V(O.raw_password) = None
             ELSE HasSurrogate(args.v[1]) \/ (Ok(O.raw_password) /\ V(O.raw_password) # None
                                              /\ SameMeaning("password", FALSE, args.v[1], V(O.raw_password)[1])))
    [] act = "with_host" -> Scheme5(O) = Scheme5(S) /\ SameTail(S, O) /\ SameAuthorityBut(S, O, {"host_subcomponent"})
    [] act = "with_port" ->
         /\ Scheme5(O) = Scheme5(S) /\ SameTail(S, O) /\ SameAuthorityBut(S, O, {"explicit_port"}) /\ HostTextKept(S, O)
         /\ Ok(O.explicit_port)
         /\ (IF args.v.t = "none" THEN V(O.explicit_port) = None
             ELSE args.v.t = "int" /\ Len(args.v.s) <= 5 /\ AllDigits(args.v.s) /\ V(O.explicit_port) = Some(DigitsVal(args.v.s)))
    [] act = "with_fragment" ->
         /\ Scheme5(O) = Scheme5(S) /\ Netloc5(O) = Netloc5(S) /\ Path5(O) = Path5(S) /\ Query5(O) = Query5(S)
         /\ (IF args.v = None THEN Frag5(O) = <<>> ELSE Meaning("fragment", FALSE, args.v[1], Frag5(O)))
    [] act \in {"with_query", "extend_query", "update_query", "without_query_params", "mod"} ->
         Scheme5(O) = Scheme5(S) /\ Netloc5(O) = Netloc5(S) /\ Path5(O) = Path5(S) /\ Frag5(O) = Frag5(S)
    [] act \in {"with_path", "with_name", "with_suffix"} ->
         /\ Scheme5(O) = Scheme5(S) /\ Netloc5(O) = Netloc5(S)
         /\ Query5(O) = (IF args.keep_query THEN Query5(S) ELSE <<>>)
         /\ Frag5(O) = (IF args.keep_fragment THEN Frag5(S) ELSE <<>>)
    [] act \in {"truediv", "joinpath", "parent"} ->
         Scheme5(O) = Scheme5(S) /\ Netloc5(O) = Netloc5(S) /\ Query5(O) = <<>> /\ Frag5(O) = <<>>
    [] act = "origin" ->
         /\ Scheme5(O) = Scheme5(S) /\ SameAuthorityBut(S, O, {"raw_user", "raw_password"})
         /\ Ok(O.raw_user) /\ V(O.raw_user) = None /\ Ok(O.raw_password) /\ V(O.raw_password) = None
         /\ Path5(O) = <<>> /\ Query5(O) = <<>> /\ Frag5(O) = <<>>
    [] act = "relative" -> Scheme5(O) = <<>> /\ Netloc5(O) = <<>> /\ SameTail(S, O)
    [] OTHER -> TRUE
\* The frame covers every public view, decoded ones included: a component the modifier cleared reads None in BOTH views, and a
\* decoded authority view the modifier does not own is the receiver's (only the fields present in both observations are judged).
C11_DecodedPairs == { <<"raw_user", "user">>, <<"raw_password", "password">>, <<"raw_host", "host">> }
C11_DecodedOwned(act) == CASE act = "with_user" -> {"user", "password"} [] act = "with_password" -> {"password"}
                           [] act = "with_host" -> {"host"} [] act \in {"origin", "relative"} -> {"user", "password", "host"} [] OTHER -> {}
C11_DecodedFollows(act, S, O) ==
  /\ \A pr \in C11_DecodedPairs :
        (pr[1] \in DOMAIN O /\ pr[2] \in DOMAIN O /\ Ok(O[pr[1]]) /\ Ok(O[pr[2]])) => ((V(O[pr[1]]) = None) <=> (V(O[pr[2]]) = None))
  /\ \A f \in {"user", "password", "host"} \ C11_DecodedOwned(act) :
        (f \in DOMAIN O /\ f \in DOMAIN S /\ Ok(S[f]) /\ Ok(O[f])) => O[f] = S[f]
C11_Applies(act) == act \in {"with_scheme", "with_user", "with_password", "with_host", "with_port", "with_fragment", "with_query",
   "extend_query", "update_query", "without_query_params", "mod", "with_path", "with_name", "with_suffix", "truediv",
   "joinpath", "parent", "origin", "relative"}

\* ======================================================================== C15
\* section 5.2.4 on a list of (decoded) segments: non-dot segments are replaced by placeholders,
\* the literal buffer algorithm is run on the rooted path, and the placeholders are mapped back
RdsSegs(segs) ==
  LET enc == [i \in 1..Len(segs) |->
                 IF segs[i] \in {<<DOT>>, <<DOT, DOT>>} THEN segs[i] ELSE IF segs[i] = <<>> THEN <<>> ELSE <<1000000 + i>>]
      outp == RemoveDotSegments(<<SLASH>> \o JoinWith(enc, SLASH))
      outs == IF outp = <<>> THEN <<>> ELSE Split(Tail(outp), SLASH) IN
  [i \in 1..Len(outs) |-> IF outs[i] # <<>> /\ outs[i][1] >= 1000000 THEN segs[outs[i][1] - 1000000] ELSE outs[i]]
DotDecode(p) ==      \* %2E / %2e spelled as '.'
  LET F[i \in 1..(Len(p) + 1)] ==
        IF i > Len(p) THEN <<>>
        ELSE IF IsPctAt(p, i) /\ PctByte(p, i) = DOT THEN <<DOT>> \o F[i + 3] ELSE <<p[i]>> \o F[i + 1]
  IN F[1]
C15_NoDots(O) == Netloc5(O) # <<>> => ~HasDotSeg(Path5(O))
\* old segments of the receiver for "/" and joinpath: decoded parts without the root, one trailing empty dropped
OldSegs(S) == LET p == V(S.parts)
                  q == IF p # <<>> /\ p[1] = <<SLASH>> THEN Tail(p) ELSE p
              IN IF q # <<>> /\ Last(q) = <<>> THEN Front(q) ELSE q
NewSegs(vs) == Flat([i \in 1..Len(vs) |->
                 LET sg == Split(vs[i], SLASH) IN IF i < Len(vs) /\ Last(sg) = <<>> THEN Front(sg) ELSE sg])
PathEq(a, b) == a = b \/ {a, b} = {<<>>, <<SLASH>>}
C15_Expected(act, args, S, O) ==
  \* ("the rooted path that was supplied": a rootless path under an authority is outside the clause)
  CASE act = "build" -> (("path" \in DOMAIN args.kw /\ ~HasSurrogate(args.kw.path) /\ args.kw.path # <<>> /\ args.kw.path[1] = SLASH) =>
           (Ok(O.path) /\ PathEq(V(O.path), RemoveDotSegments(args.kw.path))))
    [] act = "with_path" -> ((~args.encoded /\ ~HasSurrogate(args.v)) =>
           (Ok(O.path) /\ PathEq(V(O.path), RemoveDotSegments(Rooted(args.v)))))
    [] act = "ctor" -> (\E gray \in BOOLEAN :
           LET a == AppendixBWith(StripWhatwg(args.s), gray) IN
           HasSurrogate(a.path) \/ SkelOut("path", Path5(O)) = SkelOut("path", RemoveDotSegments(DotDecode(a.path)))
                                \/ (a.path = <<>> /\ Path5(O) = <<>>))
    [] act \in {"truediv", "joinpath"} ->
           LET vs == IF act = "truediv" THEN <<args.v>> ELSE args.vs IN
           ((\A i \in 1..Len(vs) : ~HasSurrogate(vs[i])) /\ Ok(S.parts)) =>
           (Ok(O.path) /\ PathEq(V(O.path), <<SLASH>> \o JoinWith(RdsSegs(OldSegs(S) \o NewSegs(vs)), SLASH)))
    [] OTHER -> TRUE
C15_ExpectedApplies(act, args, O) ==
  /\ Netloc5(O) # <<>>
  /\ \/ act \in {"build", "with_path", "truediv"} \/ (act = "ctor" /\ ~args.encoded) \/ (act = "joinpath" /\ ~args.encoded)
\* without an authority dot segments are kept verbatim
C15_Verbatim(act, args, O) ==
  CASE act = "build" -> (("path" \in DOMAIN args.kw /\ ~HasSurrogate(args.kw.path)) => (Ok(O.path) /\ V(O.path) = args.kw.path))
    [] act = "with_path" -> ((~args.encoded /\ ~HasSurrogate(args.v)) => (Ok(O.path) /\ V(O.path) = Rooted(args.v)))
    [] OTHER -> TRUE

\* ======================================================================== C14
RefOf(o) == [scheme |-> Scheme5(o), hasAuth |-> Netloc5(o) # <<>>, authority |-> Netloc5(o), path |-> Path5(o),
             hasQuery |-> Query5(o) # <<>>, query |-> Query5(o), hasFragment |-> Frag5(o) # <<>>, fragment |-> Frag5(o)]
SameParts(O, R) == Scheme5(O) = Scheme5(R) /\ Netloc5(O) = Netloc5(R) /\ Path5(O) = Path5(R)
                   /\ Query5(O) = Query5(R) /\ Frag5(O) = Frag5(R)
\* "base whose scheme supports relative resolution": urllib's uses_relative, supplied as environment data
C14_RefUnchangedCase(S, R, usesRelative) ==
  LET scheme == IF Scheme5(R) # <<>> THEN Scheme5(R) ELSE Scheme5(S) IN
  scheme # Scheme5(S) \/ scheme \notin usesRelative
\* where RFC 3986 5.2 is defined or its extension unambiguous: the base has a scheme, or an authority, or a rooted path
C14_Judged(S) == Scheme5(S) # <<>> \/ Netloc5(S) # <<>> \/ (Path5(S) # <<>> /\ Path5(S)[1] = SLASH)
C14_IsTransform(S, R, O) ==
  LET t == Transform(RefOf(S), RefOf(R), FALSE) IN
  /\ Scheme5(O) = t.scheme
  /\ Netloc5(O) = t.authority
  /\ (Path5(O) = t.path \/ (t.hasAuth /\ {Path5(O), t.path} = {<<>>, <<SLASH>>}))
  /\ Query5(O) = t.query
  /\ Frag5(O) = t.fragment

\* ======================================================================== C03
ValidHostText(h) == \A i \in 1..Len(h) : h[i] \in Unreserved \cup SubDelims \cup {PCT, COLON}
C03_ValidInput(O) ==
  /\ (Scheme5(O) = <<>> \/ SchemeGrammar(Scheme5(O)))
  /\ Ok(O.raw_host) /\ (V(O.raw_host) = None \/ ValidHostText(V(O.raw_host)[1]))
C03_Fields == {"str", "scheme", "raw_user", "user", "raw_password", "password", "raw_host", "host", "port",
               "raw_path", "path", "raw_query_string", "query_string", "query", "raw_fragment", "fragment"}
C03_FixedPoint(O, RP) == Ok(RP) /\ \A f \in C03_Fields : RP.ok[f] = O[f]
C03_DiffFields(O, RP) == IF ~Ok(RP) THEN {"reparse-raises"} ELSE {f \in C03_Fields : RP.ok[f] # O[f]}

\* ======================================================================== C09
C09_Fields == {"str", "val", "scheme", "raw_authority", "authority", "raw_user", "user", "raw_password", "password",
               "raw_host", "host", "host_subcomponent", "host_port_subcomponent", "explicit_port", "port", "raw_path", "path",
               "path_safe", "raw_query_string", "query_string", "query", "raw_fragment", "fragment", "raw_parts", "parts",
               "raw_name", "name", "raw_suffix", "suffix", "raw_suffixes", "suffixes", "raw_path_qs", "path_qs", "absolute",
               "is_default_port", "bool", "human_repr"}
C09_TwinDiff(O, tw) == IF ~Ok(tw) THEN {"twin-raises"}
                       ELSE {f \in C09_Fields : tw.ok[f] # O[f]} \cup (IF tw.eq THEN {} ELSE {"=="}) \cup (IF tw.hash_eq THEN {} ELSE {"hash"})

\* ======================================================================== C17
C17_PortFallback(O) ==
  Ok(O.explicit_port) =>
    /\ Ok(O.port) /\ V(O.port) = (IF V(O.explicit_port) # None THEN V(O.explicit_port) ELSE DefaultPort(Scheme5(O)))
    /\ Ok(O.is_default_port) /\ V(O.is_default_port) =
         (IF V(O.explicit_port) = None THEN Netloc5(O) # <<>> ELSE V(O.explicit_port) = DefaultPort(Scheme5(O)))
C17_Range(O) == Ok(O.explicit_port) => (V(O.explicit_port) = None \/ V(O.explicit_port)[1] \in 0..65535)
\* str() and host_port_subcomponent show the port exactly when it is written and not the scheme default
ShowsPort(text, p) == IsSuffixOf(<<COLON>> \o NatText(p), text)
C17_StrPort(O) ==
  (Ok(O.explicit_port) /\ Ok(O.str) /\ Netloc5(O) # <<>> /\ ~SplitAuthority(Netloc5(O)).oddBrackets
   /\ (Scheme5(O) = <<>> \/ SchemeGrammar(Scheme5(O)))
   \* port spellings int() tolerates but the RFC does not ("+80", "8_0") are unspecified (C07 reading d)
   /\ LET pt == SplitAuthority(Netloc5(O)).port IN pt = <<>> \/ AllDigits(pt)) =>
    LET b == AppendixBWith(V(O.str), TRUE)
        sp == SplitAuthority(b.authority)
        ep == V(O.explicit_port) IN
    IF ep = None \/ ep = DefaultPort(Scheme5(O)) THEN sp.port = <<>>
    ELSE AllDigits(sp.port) /\ DigitsVal(sp.port) = ep[1]
C17_HostPortSub(O) ==
  (Ok(O.explicit_port) /\ Ok(O.host_port_subcomponent) /\ V(O.host_port_subcomponent) # None /\ Ok(O.host_subcomponent)
   /\ V(O.host_subcomponent) # None) =>
    LET hp == V(O.host_port_subcomponent)[1]
        h  == RStripSet(V(O.host_subcomponent)[1], {DOT})
        ep == V(O.explicit_port) IN
    IF ep = None \/ ep = DefaultPort(Scheme5(O)) THEN hp = h ELSE hp = h \o <<COLON>> \o NatText(ep[1])
\* with_port: accept/clear/reject table
C17_WithPort(args, S, out) ==
  LET v == args.v IN
  IF ~Ok(S.explicit_port) THEN TRUE      \* receiver with an unparseable port (encoded=True): outside the table
  ELSE IF Netloc5(S) = <<>> THEN ~Ok(out) /\ out.exc \in {"ValueError", "TypeError"}
  ELSE IF v.t = "none" THEN Ok(out) /\ Ok(out.ok.explicit_port) /\ V(out.ok.explicit_port) = None
  ELSE IF v.t = "int" THEN
       (IF v.s[1] # 45 /\ Len(v.s) <= 5 /\ DigitsVal(v.s) <= 65535
        THEN Ok(out) /\ Ok(out.ok.explicit_port) /\ V(out.ok.explicit_port) = Some(DigitsVal(v.s))
        ELSE ~Ok(out) /\ out.exc = "ValueError")
  ELSE ~Ok(out) /\ out.exc \in {"TypeError", "ValueError"}

\* build(port=...): in range accepted (a default port is not written), anything else rejected
C17_BuildPort(kw, out) ==
  ("port" \in DOMAIN kw /\ "host" \in DOMAIN kw /\ kw.host # <<>> /\ "authority" \notin DOMAIN kw) =>
    LET v == kw.port IN
    IF v.t = "none" THEN TRUE
    ELSE IF v.t = "int" /\ v.s[1] # 45 /\ Len(v.s) <= 5 /\ DigitsVal(v.s) <= 65535 THEN
         (Ok(out) => (Ok(out.ok.explicit_port) /\
                      V(out.ok.explicit_port) = (IF Some(DigitsVal(v.s)) = DefaultPort(Scheme5(out.ok)) THEN None ELSE Some(DigitsVal(v.s)))))
    ELSE ~Ok(out) /\ out.exc \in {"ValueError", "TypeError"}
\* does a '..' occur while the segment stack (every non-dot segment, empty ones included, is a push) is empty?
RECURSIVE ClimbsFrom(_, _, _)
ClimbsFrom(segs, i, depth) ==
  IF i > Len(segs) THEN FALSE
  ELSE IF segs[i] = <<DOT, DOT>> THEN (depth = 0 \/ ClimbsFrom(segs, i + 1, depth - 1))
  ELSE IF segs[i] = <<DOT>> THEN ClimbsFrom(segs, i + 1, depth)
  ELSE ClimbsFrom(segs, i + 1, depth + 1)
ClimbsAboveRoot(segs) == ClimbsFrom(segs, 1, 0)

\* ======================================================================== C04
(* CanonicalUrl(s, usesNetloc): the canonical language, as a recogniser.  TLC decides canonicity, so  *)
(* the harness cannot smuggle a non-canonical input in and blame the library.                       *)
CanonPortText(scheme, pt) ==
  /\ AllDigits(pt) /\ Len(pt) <= 5 /\ (Len(pt) = 1 \/ pt[1] # 48) /\ DigitsVal(pt) <= 65535
  /\ Some(DigitsVal(pt)) # DefaultPort(scheme)
\* reg-name / IPv4 hosts: lower-case ASCII, legal characters, escapes lower-case (the host is lower-cased as a whole,
\* not re-quoted).  Bracketed hosts: an IPv6 address in its RFC 5952 text (computed by Host!Compressed), optionally
\* followed by a zone id written the RFC 6874 way -- "%25" and a non-empty lower-case alphanumeric ZoneID
RECURSIVE CanonHostFrom(_, _)
CanonHostFrom(h, i) ==
  IF i > Len(h) THEN TRUE
  ELSE IF h[i] = PCT THEN i + 2 <= Len(h) /\ h[i + 1] \in HexLower /\ h[i + 2] \in HexLower /\ CanonHostFrom(h, i + 3)
  ELSE h[i] \in (Unreserved \cup SubDelims) \ UpperAlpha /\ CanonHostFrom(h, i + 1)
CanonHost(h) == h # <<>> /\ CanonHostFrom(h, 1)
CanonZone(z) == Len(z) > 2 /\ z[1] = 50 /\ z[2] = 53 /\ \A i \in 3..Len(z) : z[i] \in (Digit \cup Alpha) \ UpperAlpha
CanonBracketed(inner) ==
  LET z == ZoneSplit(inner) g == ParseIPv6(z[1]) IN
  /\ g # <<>> /\ Compressed(g) = z[1]
  /\ ~HasAny(z[1], {DOT})                     \* the dotted-quad tail spelling is not the RFC 5952 text Compressed() writes
  /\ (z[2] => CanonZone(z[3]))
SchemeNeedsHost(sc) == DefaultPort(sc) # None      \* http https ws wss ftp
CanonicalUrl(s, usesNetloc) ==
  LET a  == AppendixB(s)
      sa == SplitAuthority(a.authority)
      h  == Find(s, HASH)
      bh == IF h = 0 THEN s ELSE Upto(s, h - 1) IN
  /\ a.scheme = LowerS(a.scheme)
  /\ ~(\E d \in {FindIn(s, 1, {COLON, SLASH, QMARK, HASH})} : d > 1 /\ s[d] = COLON /\ a.scheme = <<>>)   \* no scheme-like junk
  /\ IF a.hasAuth THEN
        IF a.authority = <<>> THEN a.scheme # <<>> /\ a.scheme \in usesNetloc /\ ~SchemeNeedsHost(a.scheme)
        ELSE /\ ~sa.oddBrackets /\ (sa.bracketed \/ (~Has(a.authority, LBR) /\ ~Has(a.authority, RBR)))
             /\ (sa.hasUserinfo => (sa.user # <<>> \/ sa.hasPassword))
             /\ CanonicalText("user", sa.user) /\ CanonicalText("password", sa.password)
             \* an EMPTY host (reg-name may be empty) next to userinfo or a port, for schemes that do not insist on a host
             /\ (IF sa.bracketed THEN CanonBracketed(sa.host)
                 ELSE IF sa.host = <<>> THEN ~SchemeNeedsHost(a.scheme) /\ (sa.hasUserinfo \/ (sa.hasPort /\ sa.port # <<>>))
                 ELSE CanonHost(sa.host))
             /\ (sa.hasPort => CanonPortText(a.scheme, sa.port))
     ELSE ~(a.scheme # <<>> /\ a.scheme \in usesNetloc) \/ (a.path # <<>> /\ a.path[1] # SLASH)
  /\ CanonicalText("path", a.path)
  /\ (a.hasAuth /\ a.authority # <<>>) => (~HasDotSeg(a.path) /\ (a.path = <<>> => (a.query = <<>> /\ a.fragment = <<>>)))
  /\ CanonicalText("query", a.query) /\ (Has(bh, QMARK) => a.query # <<>>)
  /\ CanonicalText("fragment", a.fragment) /\ (h > 0 => a.fragment # <<>>)
C04_Unchanged(s, o) == Ok(o.str) /\ V(o.str) = s

\* ======================================================================== C10
\* a comparison record: a, b observations (val), the six operator results, hash equality
NormKey5(o) == <<Scheme5(o), Netloc5(o), IF Path5(o) = <<>> /\ Netloc5(o) # <<>> THEN <<SLASH>> ELSE Path5(o), Query5(o), Frag5(o)>>
C10_EqDef(r) == r.eq = (NormKey5(r.a) = NormKey5(r.b)) /\ r.ne = ~r.eq
C10_Hash(r) == r.eq => r.hash_eq
C10_Symmetric(r) == r.eq = r.eq_rev
C10_Trichotomy(r) == Cardinality({x \in {"lt", "eq", "gt"} : r[x]}) = 1
C10_LeGe(r) == r.le = (r.lt \/ r.eq) /\ r.ge = (r.gt \/ r.eq) /\ r.gt = r.lt_rev
C10_NonUrl(r) == ~r.eq_str /\ ~r.eq_none /\ ~r.eq_split /\ ~r.eq_int
\* triples
C10_Transitive(t) == /\ (t.eq_ab /\ t.eq_bc) => t.eq_ac
                     /\ (t.lt_ab /\ t.lt_bc) => t.lt_ac
                     /\ (t.le_ab /\ t.le_bc) => t.le_ac

\* ======================================================================== C12
\* typed query values: [t |-> "str"|"int"|"float"|"bool"|"none"|"bytes"|"list"|"tuple", s |-> text of str(v), items |-> ...]
NonFinite == { <<110,97,110>>, <<105,110,102>>, <<45,105,110,102>> }        \* "nan" "inf" "-inf"
SimpleOk(tv) == tv.t \in {"str", "int"} \/ (tv.t = "float" /\ tv.s \notin NonFinite)
SeqForms == {"mapping", "multidict", "kwargs"}          \* forms whose values may be list/tuple
ValueOk(form, tv) == IF tv.t \in {"list", "tuple"} THEN form \in SeqForms /\ \A i \in 1..Len(tv.items) : SimpleOk(tv.items[i])
                     ELSE SimpleOk(tv)
QArgOk(q) == q.form \in {"none", "str"} \/ \A i \in 1..Len(q.pairs) : ValueOk(q.form, q.pairs[i][2])
\* the pairs a (valid) query argument denotes, in order
PairsOfValue(k, tv) == IF tv.t \in {"list", "tuple"} THEN [i \in 1..Len(tv.items) |-> <<k, tv.items[i].s>>] ELSE << <<k, tv.s>> >>
ExpandPairs(q) == Flat([i \in 1..Len(q.pairs) |-> PairsOfValue(q.pairs[i][1], q.pairs[i][2])])
\* a query STRING argument: '&' and the first '=' are syntax, '+' is a space, '%' is literal text
PlusToSpace(t) == [i \in 1..Len(t) |-> IF t[i] = PLUS THEN SPACE ELSE t[i]]
PlainPairs(str) == LET pieces == SelectSeq(Split(str, AMP), LAMBDA p : p # <<>>) IN
   [i \in 1..Len(pieces) |-> LET pr == Partition(pieces[i], EQ) IN <<PlusToSpace(pr[1]), PlusToSpace(pr[3])>>]
ArgPairs(q) == IF q.form = "str" THEN PlainPairs(q.s) ELSE ExpandPairs(q)
ArgHasSurrogate(q) == IF q.form = "str" THEN HasSurrogate(q.s)
                      ELSE \E i \in 1..Len(ArgPairs(q)) : HasSurrogate(ArgPairs(q)[i][1]) \/ HasSurrogate(ArgPairs(q)[i][2])
KeysOf(ps) == {ps[i][1] : i \in 1..Len(ps)}
ValuesFor(ps, k) == LET sel == SelectSeq(ps, LAMBDA p : p[1] = k) IN [i \in 1..Len(sel) |-> sel[i][2]]
ArgEmpty(q) == q.form = "none" \/ (q.form = "str" /\ q.s = <<>>) \/ (q.form # "str" /\ q.pairs = <<>>)
IsTypeOrValueError(out) == ~Ok(out) /\ out.exc \in {"TypeError", "ValueError"}

C12_Gate(q, out) == ~QArgOk(q) => IsTypeOrValueError(out)
C12_WithQuery(q, S, out) ==
  (QArgOk(q) /\ ~ArgHasSurrogate(q)) =>
     (Ok(out) /\ Ok(out.ok.query) /\ V(out.ok.query) = (IF q.form = "none" THEN <<>> ELSE ArgPairs(q)))
C12_ExtendQuery(q, S, out) ==
  (QArgOk(q) /\ ~ArgHasSurrogate(q) /\ Ok(S.query)) =>
     (Ok(out) /\ Ok(out.ok.query) /\ V(out.ok.query) = V(S.query) \o (IF q.form = "none" THEN <<>> ELSE ArgPairs(q)))
C12_UpdateQuery(q, S, out) ==
  (QArgOk(q) /\ ~ArgHasSurrogate(q) /\ Ok(S.query) /\ ~(q.form = "str" /\ Has(q.s, PCT))) =>
     (Ok(out) /\ Ok(out.ok.query) /\
      LET R == V(out.ok.query) O == V(S.query) N == ArgPairs(q) IN
      IF q.form = "none" THEN R = <<>>
      ELSE IF ArgEmpty(q) THEN R = O
      ELSE LET K == IF q.form = "str" THEN KeysOf(N) ELSE {q.pairs[i][1] : i \in 1..Len(q.pairs)} IN   \* a key with an empty list value occurs in q
           /\ SelectSeq(R, LAMBDA p : p[1] \notin K) = SelectSeq(O, LAMBDA p : p[1] \notin K)
           /\ \A k \in K : ValuesFor(R, k) = ValuesFor(N, k))
C12_Without(keys, S, out) ==
  Ok(S.query) => (Ok(out) /\ Ok(out.ok.query) /\
                  V(out.ok.query) = SelectSeq(V(S.query), LAMBDA p : p[1] \notin Range(keys)))

\* ======================================================================== C13
TrimTrailingEmpty(ps) == IF ps # <<>> /\ Last(ps) = <<>> THEN Front(ps) ELSE ps
\* accessor relations of one URL
C13_PartsRecompose(o) ==
  (Ok(o.raw_parts) /\ Ok(o.raw_path)) =>
     LET ps == V(o.raw_parts) IN
     IF ps # <<>> /\ ps[1] = <<SLASH>> THEN PathEq(<<SLASH>> \o JoinWith(Tail(ps), SLASH), V(o.raw_path))
     ELSE JoinWith(ps, SLASH) = V(o.raw_path)
C13_NameIsLast(o) ==
  (Ok(o.parts) /\ Ok(o.name) /\ Ok(o.raw_name) /\ Ok(o.raw_parts)) =>
     LET ps == V(o.raw_parts) IN
     V(o.raw_name) = (IF ps = <<>> \/ ps = << <<SLASH>> >> THEN <<>> ELSE Last(ps))
C13_SuffixIsTail(o) ==
  (Ok(o.raw_name) /\ Ok(o.raw_suffix) /\ Ok(o.raw_suffixes)) =>
     /\ IsSuffixOf(V(o.raw_suffix), V(o.raw_name))
     /\ (V(o.raw_suffix) # <<>> => V(o.raw_suffix)[1] = DOT)
     /\ (V(o.raw_suffixes) # <<>> => (Last(V(o.raw_suffixes)) = V(o.raw_suffix) /\ IsSuffixOf(Flat(V(o.raw_suffixes)), V(o.raw_name))))
SameVal(a, b) == Ok(a) /\ Ok(b) /\ V(a.ok.val) = V(b.ok.val)
BothRaiseOrSame(a, b) == (Ok(a) = Ok(b)) /\ (Ok(a) => V(a.ok.val) = V(b.ok.val))
IsDotText(t) == t \in {<<DOT>>, <<DOT, DOT>>}
\* family "div": outs = <<u / s, u.joinpath(s), (u / s).parent>>
C13_Div(args, S, outs) ==
  /\ BothRaiseOrSame(outs[1], outs[2])
  /\ (Ok(outs[1]) /\ ~Has(args.s, SLASH) /\ ~IsDotText(args.s) /\ ~HasSurrogate(args.s) /\ args.s # <<>>) =>
        /\ Ok(outs[1].ok.name) /\ V(outs[1].ok.name) = args.s
        /\ Ok(outs[3]) /\ Ok(outs[3].ok.parts) /\ Ok(S.parts)
        \* "u's parts without a trailing empty segment"; for the root ('/', '') the parent is the root again
        /\ \/ V(outs[3].ok.parts) = TrimTrailingEmpty(V(S.parts))
           \/ TrimTrailingEmpty(V(outs[3].ok.parts)) = TrimTrailingEmpty(V(S.parts))
\* family "join2": outs = <<joinpath(a, b), joinpath(a).joinpath(b), u / "a/b">>
\* (joinpath(a, b) against the chained form for ALL texts free of dot segments -- slashes, trailing slashes and empty texts
\* included; against the single-text spelling u / "a/b" only where that text is unambiguous)
C13_Join2(args, S, outs) ==
  /\ (~HasDotSeg(args.a) /\ ~HasDotSeg(args.b)) => BothRaiseOrSame(outs[1], outs[2])
  /\ (args.a # <<>> /\ args.b # <<>> /\ ~Has(args.a, SLASH)) => (BothRaiseOrSame(outs[1], outs[2]) /\ BothRaiseOrSame(outs[1], outs[3]))
\* family "with_name": outs = <<u.with_name(n), u.with_name(n).parent, u.parent>>
C13_WithName(args, S, outs) ==
  (Ok(outs[1]) /\ ~HasSurrogate(args.n)) =>
     /\ Ok(outs[1].ok.name) /\ V(outs[1].ok.name) = args.n
     /\ (Ok(S.raw_name) /\ V(S.raw_name) # <<>> /\ args.n # <<>>) => (Ok(outs[2]) /\ Ok(outs[3]) /\ V(outs[2].ok.val) = V(outs[3].ok.val))
\* family "with_suffix": outs = <<u.with_suffix(x)>>: only the suffix changes; nothing is re-encoded
Stem(name, suffix) == Upto(name, Len(name) - Len(suffix))
C13_WithSuffix(args, S, outs) ==
  (Ok(outs[1]) /\ ~HasSurrogate(args.x) /\ Ok(S.name) /\ Ok(S.suffix) /\ Ok(S.raw_parts)) =>
     LET O == outs[1].ok IN
     /\ Ok(O.name) /\ V(O.name) = Stem(V(S.name), V(S.suffix)) \o args.x
     /\ Ok(O.raw_parts) /\ Len(V(O.raw_parts)) = Len(V(S.raw_parts)) /\ Front(V(O.raw_parts)) = Front(V(S.raw_parts))
     /\ Ok(O.raw_name) /\ Ok(S.raw_name) /\ Ok(S.raw_suffix)
     /\ StartsWith(V(O.raw_name), Stem(V(S.raw_name), V(S.raw_suffix)))

\* ======================================================================== C16
HostAddrPart(h) == IF Has(h, COLON) THEN ZoneSplit(h)[1] ELSE h
C16_LowerAscii(o) ==
  (Ok(o.raw_host) /\ V(o.raw_host) # None) =>
     LET h == V(o.raw_host)[1] IN IsAscii(h) /\ LowerS(HostAddrPart(h)) = HostAddrPart(h)
C16_Ipv6Canonical(o) ==
  (Ok(o.raw_host) /\ V(o.raw_host) # None /\ Has(V(o.raw_host)[1], COLON)) =>
     LET h == V(o.raw_host)[1] IN
     /\ CanonIPv6Host(h) = h
     /\ Ok(o.host_subcomponent) /\ V(o.host_subcomponent) = Some(<<LBR>> \o h \o <<RBR>>)
     /\ (Ok(o.host_port_subcomponent) => StartsWith(V(o.host_port_subcomponent)[1], <<LBR>> \o h \o <<RBR>>))
     /\ (Ok(o.str) => \E i \in 1..Len(V(o.str)) : StartsWith(From(V(o.str), i), <<LBR>> \o h \o <<RBR>>))
\* what a supplied host text must be stored as (None: this clause does not determine it)
C16_ExpectedHost(v) ==
  IF Has(v, COLON) /\ CanonIPv6Host(v) # <<>> THEN Some(CanonIPv6Host(v))
  ELSE IF IsIPv4(v) THEN Some(v)
  ELSE IF IsAscii(v) /\ v # <<>> /\ AllLegalFrom(Unreserved \cup SubDelims, v, 1) /\ ~(Last(v) \in Digit /\ Has(v, PCT)) THEN Some(LowerS(v))
  ELSE None
\* hosts build()/with_host() must refuse: ASCII text with a character outside the reg-name grammar, not an IP literal
C16_MustReject(v) ==
  /\ IsAscii(v) /\ v # <<>>
  /\ ~AllLegalFrom(Unreserved \cup SubDelims, v, 1)
  /\ ~(Has(v, COLON) /\ CanonIPv6Host(v) # <<>>) /\ ~IsIPv4(HostAddrPart(v)) /\ ~IsIPv4(ZoneSplit(v)[1])
C16_HostArg(v, out) ==
  /\ (C16_ExpectedHost(v) # None) => (Ok(out) /\ Ok(out.ok.raw_host) /\ V(out.ok.raw_host) = C16_ExpectedHost(v))
  /\ C16_MustReject(v) => IsValueError(out)
  \* whatever was accepted is stored as a reg-name / IP literal (also after IDNA mapping)
  /\ (Ok(out) /\ Ok(out.ok.raw_host) /\ V(out.ok.raw_host) # None /\ ~Has(V(out.ok.raw_host)[1], COLON)
      /\ ~IsIPv4(ZoneSplit(V(out.ok.raw_host)[1])[1])) =>          \* an IPv4 literal with a zone id: unspecified
        AllLegalFrom(Unreserved \cup SubDelims, V(out.ok.raw_host)[1], 1)
\* the constructor: a bracketed valid IPv6 literal is compressed
\* (an authority that contains an NFKC-delimiter code point -- e.g. inside the zone id -- is C16_Nfkc's: it must be refused)
C16_CtorHost(s, nfkcDelims, out) ==
  \E gray \in BOOLEAN :
    LET a == AppendixBWith(StripWhatwg(s), gray) sa == SplitAuthority(a.authority) IN
    (a.authority # <<>> /\ sa.bracketed /\ ~sa.oddBrackets /\ CanonIPv6Host(sa.host) # <<>> /\ ~HasAny(a.authority, nfkcDelims)
       /\ (sa.port = <<>> \/ (AllDigits(sa.port) /\ Len(sa.port) <= 5 /\ DigitsVal(sa.port) <= 65535))) =>
       (Ok(out) /\ Ok(out.ok.raw_host) /\ V(out.ok.raw_host) = Some(CanonIPv6Host(sa.host)))
\* NFKC screen
C16_Nfkc(s, nfkcDelims, out) ==
  LET a == AppendixBWith(StripWhatwg(s), TRUE) IN HasAny(a.authority, nfkcDelims) => IsValueError(out)
\* idempotence / decode-re-encode: with_host(own raw_host) and with_host(own host) give the same raw host
\* (the constructor does not validate hosts; the clause speaks of syntactically valid stored hosts)
ValidStoredHost(h) == \/ (Has(h, COLON) /\ CanonIPv6Host(h) # <<>>) \/ IsIPv4(h)
                      \/ (~Has(h, COLON) /\ AllLegalFrom(Unreserved \cup SubDelims, h, 1))
\* a stored host the (non-validating) constructor let through must still be refused by with_host()
C16_SelfHostRejected(S, out) ==
  (Ok(S.raw_host) /\ V(S.raw_host) # None /\ C16_MustReject(V(S.raw_host)[1])) => IsValueError(out)
C16_SelfHost(S, out) ==
  (Ok(S.raw_host) /\ V(S.raw_host) # None /\ V(S.raw_host)[1] # <<>> /\ ValidStoredHost(V(S.raw_host)[1])) =>
     (Ok(out) /\ Ok(out.ok.raw_host) /\ V(out.ok.raw_host) = V(S.raw_host))

\* ======================================================================== C18
\* r.human: [ok |-> Obs of URL(u.human_repr()), eq |-> URL(h) == u]  |  [exc |-> type]
C18_RoundTrip(O, hm) == Ok(O.human_repr) => (Ok(hm) /\ hm.eq)
IsSubText(t, s) == t = <<>> \/ \E i \in 1..(Len(s) - Len(t) + 1) : Sub(s, i, i + Len(t) - 1) = t
\* a supplied component text that needs no escape anywhere (printable, no delimiter of any component, no '%')
NeedsNoEscape(t, printable) == \A i \in 1..Len(t) : t[i] \in printable /\ t[i] \notin (GenDelims \cup {AMP, PLUS, SEMI, EQ, PCT, SPACE})
C18_Shows(t, O, printable) == (NeedsNoEscape(t, printable) /\ Ok(O.human_repr)) => IsSubText(t, V(O.human_repr))
\* "the IDN host decoded rather than escaped", without an IDNA table: a host that was SUPPLIED as Unicode text got every one of
\* its A-labels from the library's own encoder, so each of them decodes; none may be left as "xn--..." in human_repr()
XnPrefix == <<120, 110, 45, 45>>
C18_HostDecoded(h, O) ==
  (~IsAscii(h) /\ ~IsSubText(XnPrefix, LowerS(h)) /\ Ok(O.human_repr) /\ Ok(O.raw_host) /\ V(O.raw_host) # None
     /\ IsSubText(XnPrefix, V(O.raw_host)[1]))
  => LET hm == V(O.human_repr)
         a == AppendixB(hm) IN ~IsSubText(XnPrefix, SplitAuthority(a.authority).host)
C18_Readable(kw, O, printable) ==
  /\ ("user" \in DOMAIN kw /\ kw.user # None /\ Netloc5(O) # <<>>) => C18_Shows(kw.user[1], O, printable)
  /\ ("password" \in DOMAIN kw /\ kw.password # None /\ Netloc5(O) # <<>>) => C18_Shows(kw.password[1], O, printable)
  /\ ("path" \in DOMAIN kw /\ ~(Netloc5(O) # <<>> /\ Has(kw.path, DOT))) => C18_Shows(kw.path, O, printable)
  /\ ("fragment" \in DOMAIN kw) => C18_Shows(kw.fragment, O, printable)
  /\ (Ok(O.host) /\ V(O.host) # None /\ Ok(O.human_repr)) => IsSubText(V(O.host)[1], V(O.human_repr))
  /\ ("host" \in DOMAIN kw) => C18_HostDecoded(kw.host, O)
\* every escape in human_repr() stands for '%', a delimiter of some component, or a non-printable character
RECURSIVE EscapesJustified(_, _, _)
EscapesJustified(t, i, printable) ==
  IF i > Len(t) THEN TRUE
  ELSE IF IsPctAt(t, i) THEN
       LET bs == EscRun(t, i, 4) n == Utf8Len(bs) IN
       IF n = 0 THEN EscapesJustified(t, i + 3, printable)            \* a non-UTF-8 byte can only be shown escaped
       ELSE LET ch == Utf8Scalar(bs, n) IN
            (ch = PCT \/ ch \in GenDelims \cup {AMP, PLUS, SEMI, EQ} \/ ch \notin printable) /\ EscapesJustified(t, i + 3 * n, printable)
  ELSE EscapesJustified(t, i + 1, printable)
C18_OnlyNeededEscapes(O, printable) == Ok(O.human_repr) => EscapesJustified(V(O.human_repr), 1, printable)

\* ======================================================================== C19
Documented == {"ValueError", "TypeError"}
C19_OutcomeClass(out) == Ok(out) \/ out.exc \in Documented \cup {"n/a"}
C19_AccessorsClass(o) == \A f \in DOMAIN o : Ok(o[f]) \/ o[f].exc \in Documented
C19_BadAccessors(o) == {f \in DOMAIN o : ~Ok(o[f]) /\ o[f].exc \notin Documented}
C19_StrTotal(o) == Ok(o.str)
=============================================================================
