----------------------------- MODULE TraceQuote -----------------------------
(***************************************************************************)
(* Trace specification for quoter-level observations.  One record = one    *)
(* input pushed through the REAL pure-Python and the REAL compiled class   *)
(* of one configuration (taken from the current yarl/_quoters.py):         *)
(*   [id, kind ("quote"|"unquote"), name, in, py, c, py2, c2]              *)
(* py / c are [ok |-> text] or [exc |-> "TypeError"]; py2/c2 the second    *)
(* application (requoters).  The verdict is total: a failing clause is     *)
(* printed and the record consumed.                                        *)
(***************************************************************************)
EXTENDS QuoteClauses, Json, IOUtils, TLC, TLCExt
CONSTANT Prop        \* which property's clauses are evaluated ("C01", ... or "ALL")

Recs == JsonDeserialize(IOEnv.TRACE_FILE)
IsOk(f) == "ok" \in DOMAIN f
On_(p) == Prop = p \/ Prop = "ALL"

Backends(r) == {<<"py", r.py, r.py2>>, <<"c", r.c, r.c2>>}

\* clause name -> holds?     (names are Cxx.<clause>/<backend>)
\* very long inputs (8 KiB boundary records): only the non-recursive clause is evaluated
Long(r) == Len(r.in) > 400
Checks(r) ==
  IF Long(r) THEN (IF On_("C05") THEN {<<"C05.same", TRUE, r.py = r.c>>} ELSE {})
  ELSE IF r.kind = "quote" THEN
     UNION { LET be == b[1] o == b[2] o2 == b[3] IN
       IF ~IsOk(o) THEN {}
       ELSE (IF On_("C01") THEN {<<"C01.wellformed/" \o be, TRUE, QC_WellFormed(r.name, o.ok)>>} ELSE {})
       \cup (IF On_("C02") THEN {<<"C02.samemeaning/" \o be, ~HasSurrogate(r.in), QC_SameMeaning(r.name, r.in, o.ok)>>} ELSE {})
       \cup (IF On_("C03") /\ IsOk(o2) THEN {<<"C03.idempotent/" \o be, IsRequoter(r.name), QC_Idempotent(r.name, o.ok, o2.ok)>>} ELSE {})
       \cup (IF On_("C04") THEN {<<"C04.canonicalkept/" \o be, QC_CanonicalIn(r.name, r.in), QC_CanonicalKept(r.name, r.in, o.ok)>>} ELSE {})
       \cup (IF On_("C06") THEN {<<"C06.readback/" \o be, ReadBackApplies(r.name, r.in), QC_ReadBack(r.name, r.in, o.ok)>>} ELSE {})
       : b \in Backends(r) }
     \cup (IF On_("C05") THEN {<<"C05.same", TRUE, r.py = r.c>>} ELSE {})
  ELSE
     UNION { LET be == b[1] o == b[2] IN
       IF ~IsOk(o) THEN {}
       ELSE (IF On_("C06") THEN {<<"C06.isdecode/" \o be, TRUE, UC_IsDecode(r.name, r.in, o.ok)>>} ELSE {})
       : b \in Backends(r) }
     \cup (IF On_("C05") THEN {<<"C05.same", TRUE, r.py = r.c>>} ELSE {})

\* Level I prediction, for the drift measure (never a verdict)
Agrees(r) ==
  IF Long(r) THEN TRUE
  ELSE IF r.kind = "quote" THEN
       /\ (IsOk(r.py) => r.py.ok = QuotePy(QuoterCfg(r.name), r.in))
       /\ (IsOk(r.c)  => r.c.ok  = QuoteC(QuoterCfg(r.name), r.in))
  ELSE /\ (IsOk(r.py) => r.py.ok = Unquote(UnquoterCfg(r.name), r.in))
       /\ (IsOk(r.c)  => r.c.ok  = Unquote(UnquoterCfg(r.name), r.in))

\* deviation triggers, for attribution of a failing record to a known finding
Attribution(r) ==
  IF r.kind = "quote" /\ ~Long(r) /\ HasSurrogate(r.in) /\ IsOk(r.py) /\ IsOk(r.c)
     /\ LET cfg == QuoterCfg(r.name) IN
          /\ QOut(cfg, r.in, 1) # QOut(cfg, DropSurrogates(r.in), 1)     \* trigger: the order matters
          /\ r.py.ok = QOut(cfg, DropSurrogates(r.in), 1)                \* observed = deviant prediction
          /\ r.c.ok = QOut(cfg, r.in, 1)
  THEN {"Dev_PyQuoterDropsSurrogatesFirst"} ELSE {}

VARIABLE l
TInit == l = 1 /\ TLCSet(1, [n |-> 0, applicable |-> 0, agree |-> 0])
TNext ==
  /\ l <= Len(Recs)
  /\ LET r  == Recs[l]
         cs == Checks(r)
         failing == {c[1] : c \in {x \in cs : ~x[3]}}
         ag == Agrees(r)
     IN /\ IF failing = {} THEN TRUE ELSE PrintT(<<"VERDICT", r.id, failing, Attribution(r)>>)
        /\ IF ag THEN TRUE ELSE PrintT(<<"DRIFT", r.id>>)
        /\ TLCSet(1, [n |-> TLCGet(1).n + 1,
                      applicable |-> TLCGet(1).applicable + Cardinality({x \in cs : x[2]}),
                      agree |-> TLCGet(1).agree + (IF ag THEN 1 ELSE 0)])
  /\ l' = l + 1
Accepted == /\ PrintT(<<"STATS", TLCGet(1)>>)
            /\ TLCGet("stats").diameter - 1 = Len(Recs)
=============================================================================
