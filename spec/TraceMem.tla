------------------------------ MODULE TraceMem ------------------------------
(***************************************************************************)
(* Trace specification for histories (C08) and thread executions (C20).    *)
(* One trace file = one history: a sequence of events recorded from the    *)
(* real code.  Every event carries FACTS  [k |-> key, v |-> value] (both   *)
(* canonical strings): the outcome of a call keyed by the VALUES of its    *)
(* arguments ("call:..."), an accessor of a URL keyed by the URL's value    *)
(* ("acc:..."), the five parts of a live object keyed by its identity       *)
(* ("obj:...").  The specification state is                                 *)
(*    stable : key -> value   every fact seen so far                        *)
(*    cfg    : configured sizes of the three host caches (YarlMem's         *)
(*             CacheConfigure / CacheClear actions)                          *)
(* Step relation: a fact whose key is already in `stable` must carry the    *)
(* same value -- "the outcome of every API call is a function of its        *)
(* arguments only" and "a URL never changes", with no model of what the     *)
(* functions ARE, so model imprecision cannot raise a false alarm.          *)
(* cache_info events are checked against cfg.  Verdicts are total: after a  *)
(* rejected fact the state adopts the observed value.                       *)
(***************************************************************************)
EXTENDS Naturals, Sequences, FiniteSets, Json, IOUtils, TLC, TLCExt
CONSTANT Prop
Recs == JsonDeserialize(IOEnv.TRACE_FILE)
Unbounded == 0 - 1          \* cache size None

VARIABLES l, stable, cfg
DefaultCfg == [idna_encode |-> 256, idna_decode |-> 256, encode_host |-> 512]

FactsOf(r) == IF "facts" \in DOMAIN r THEN r.facts ELSE <<>>
\* indices of facts that contradict what is already known (or an earlier fact of the same event)
Contradicts(r) ==
  LET fs == FactsOf(r) IN
  {i \in 1..Len(fs) :
     \/ (fs[i].k \in DOMAIN stable /\ stable[fs[i].k] # fs[i].v)
     \/ \E j \in 1..(i - 1) : fs[j].k = fs[i].k /\ fs[j].v # fs[i].v}
Absorb(r) ==
  LET fs == FactsOf(r)
      ks == {fs[i].k : i \in 1..Len(fs)} IN
  [k \in DOMAIN stable \cup ks |->
     IF k \in ks THEN fs[CHOOSE i \in 1..Len(fs) : fs[i].k = k /\ \A j \in (i + 1)..Len(fs) : fs[j].k # k].v ELSE stable[k]]

\* host-cache configuration machine
CfgAfter(r) ==
  IF r.kind = "cache_configure" THEN [idna_encode |-> r.sizes.idna_encode, idna_decode |-> r.sizes.idna_decode,
                                      encode_host |-> r.sizes.encode_host]
  ELSE cfg
InfoOk(r) ==
  r.kind = "cache_info" =>
    \A c \in DOMAIN cfg : /\ r.info[c].maxsize = cfg[c]
                          /\ (cfg[c] # Unbounded => r.info[c].currsize <= cfg[c])
                          /\ r.info[c].currsize >= 0

\* exception classes seen in the step's observations: only the documented ones (C19; in a thread as anywhere else)
ExcsOk(r) == "excs" \in DOMAIN r => \A i \in 1..Len(r.excs) : r.excs[i] \in {"ValueError", "TypeError"}
Failing(r) ==
  (IF Contradicts(r) # {} THEN {Prop \o ".stable"} ELSE {})
  \cup (IF ~ExcsOk(r) THEN {Prop \o ".exception_class"} ELSE {})
  \cup (IF ~InfoOk(r) THEN {Prop \o ".cache_info"} ELSE {})
  \cup (IF "crash" \in DOMAIN r THEN {Prop \o ".no_exception"} ELSE {})

\* replayed model behaviours (R2) also carry the IDENTITY protocol of the step: whether YarlMem says the call handed out an
\* already existing (shared) object, and whether the library did.  Sharing is not a contract, so a difference is model
\* drift (reported in the agreement count), not a violation.
HasShare(r) == "share" \in DOMAIN r
ShareAgrees(r) == r.share.model = r.share.real /\ r.share.same

TInit == l = 1 /\ stable = [k \in {} |-> ""] /\ cfg = DefaultCfg /\ TLCSet(1, [n |-> 0, facts |-> 0, modelled |-> 0, agree |-> 0])
TNext ==
  /\ l <= Len(Recs)
  /\ LET r == Recs[l] f == Failing(r) IN
     /\ IF f = {} THEN TRUE
        ELSE PrintT(<<"VERDICT", r.id, f,
                      {FactsOf(r)[i].k : i \in Contradicts(r)}>>)
     /\ IF HasShare(r) /\ ~ShareAgrees(r) THEN PrintT(<<"DRIFT", r.id>>) ELSE TRUE
     /\ TLCSet(1, [n |-> TLCGet(1).n + 1, facts |-> TLCGet(1).facts + Len(FactsOf(r)),
                   modelled |-> TLCGet(1).modelled + (IF HasShare(r) THEN 1 ELSE 0),
                   agree |-> TLCGet(1).agree + (IF HasShare(r) /\ ShareAgrees(r) THEN 1 ELSE 0)])
     /\ stable' = Absorb(r)
     /\ cfg' = CfgAfter(r)
  /\ l' = l + 1
Accepted == /\ PrintT(<<"STATS", TLCGet(1)>>)
            /\ TLCGet("stats").diameter - 1 = Len(Recs)
=============================================================================
