-------------------------------- MODULE Host --------------------------------
(***************************************************************************)
(* LEVEL A for C16: textual IPv4 / IPv6 literals.                          *)
(*   ParseIPv6(t)    text (RFC 3986 IPv6address grammar, RFC 4291) -> the  *)
(*                   eight 16-bit groups, or <<>> when t is not an address *)
(*   Compressed(g)   RFC 5952 canonical text: lower-case hex, no leading   *)
(*                   zeros, the longest run (>= 2) of zero groups replaced *)
(*                   by "::", the leftmost one on ties                     *)
(*   IsIPv4(t)       dotted quad of dec-octets without leading zeros       *)
(* The canonical form is computed by the specification, not by Python's    *)
(* ipaddress module.                                                       *)
(***************************************************************************)
EXTENDS Text

\* ------------------------------------------------------------------ IPv4
DecOctetVal(t) == IF AllDigits(t) /\ Len(t) <= 3 /\ (Len(t) = 1 \/ t[1] # 48) /\ DigitsVal(t) <= 255 THEN DigitsVal(t) ELSE 0 - 1
IPv4Octets(t) == LET ps == Split(t, DOT) IN
   IF Len(ps) = 4 /\ \A i \in 1..4 : DecOctetVal(ps[i]) >= 0 THEN [i \in 1..4 |-> DecOctetVal(ps[i])] ELSE <<>>
IsIPv4(t) == IPv4Octets(t) # <<>>

\* ------------------------------------------------------------------ IPv6
H16Val(t) == IF t # <<>> /\ Len(t) <= 4 /\ \A i \in 1..Len(t) : t[i] \in HexDig
             THEN (LET F[i \in 0..Len(t)] == IF i = 0 THEN 0 ELSE F[i - 1] * 16 + HexVal(t[i]) IN F[Len(t)])
             ELSE 0 - 1
\* a ':'-separated list of h16 groups, possibly ending in an IPv4 address (two groups); <<>> on error,
\* <<0-1>> marks "invalid" so that the empty list stays a valid (empty) result
Bad == <<0 - 1>>
GroupsOf(t) ==
  IF t = <<>> THEN <<>>
  ELSE LET ps == Split(t, COLON)
           n == Len(ps)
           lastV4 == IPv4Octets(ps[n])
           headN == IF lastV4 # <<>> THEN n - 1 ELSE n
           head == [i \in 1..headN |-> H16Val(ps[i])] IN
       IF \E i \in 1..headN : head[i] < 0 THEN Bad
       ELSE IF lastV4 # <<>> THEN head \o <<lastV4[1] * 256 + lastV4[2], lastV4[3] * 256 + lastV4[4]>>
       ELSE head
\* index of the (only) "::", 0 if none, -1 if more than one / a ":::" run
DoubleColonAt(t) ==
  LET idx == {i \in 1..(Len(t) - 1) : t[i] = COLON /\ t[i + 1] = COLON} IN
  IF idx = {} THEN 0 ELSE IF Cardinality(idx) > 1 THEN 0 - 1 ELSE CHOOSE i \in idx : TRUE
Zeros(n) == [i \in 1..n |-> 0]
ParseIPv6(t) ==
  LET d == DoubleColonAt(t) IN
  IF d < 0 \/ t = <<>> THEN <<>>
  ELSE IF d = 0 THEN
       (LET g == GroupsOf(t) IN
        IF g = Bad \/ Len(g) # 8 \/ t[1] = COLON \/ Last(t) = COLON THEN <<>> ELSE g)
  ELSE LET left == Upto(t, d - 1) right == From(t, d + 2)
           gl == GroupsOf(left) gr == GroupsOf(right) IN
       IF gl = Bad \/ gr = Bad \/ Len(gl) + Len(gr) > 7
          \/ (left # <<>> /\ (left[1] = COLON \/ Last(left) = COLON)) \/ (right # <<>> /\ (right[1] = COLON \/ Last(right) = COLON))
          \/ (left # <<>> /\ IPv4Octets(Last(Split(left, COLON))) # <<>>)      \* IPv4 tail only at the very end
       THEN <<>>
       ELSE gl \o Zeros(8 - Len(gl) - Len(gr)) \o gr
IsIPv6(t) == ParseIPv6(t) # <<>>

RECURSIVE HexText(_)
HexLow(v) == IF v < 10 THEN 48 + v ELSE 87 + v
HexText(n) == IF n < 16 THEN <<HexLow(n)>> ELSE HexText(n \div 16) \o <<HexLow(n % 16)>>
\* length of the run of zero groups starting at i
RECURSIVE ZeroRun(_, _)
ZeroRun(g, i) == IF i > Len(g) \/ g[i] # 0 THEN 0 ELSE 1 + ZeroRun(g, i + 1)
Compressed(g) ==
  LET runs == [i \in 1..8 |-> IF i > 1 /\ g[i - 1] = 0 THEN 0 ELSE ZeroRun(g, i)]      \* maximal runs only
      best == CHOOSE i \in 1..8 : /\ \A j \in 1..8 : runs[j] <= runs[i]
                                  /\ \A j \in 1..(i - 1) : runs[j] < runs[i]
      txt(a, b) == JoinWith([k \in 1..(b - a + 1) |-> HexText(g[a + k - 1])], COLON) IN
  IF runs[best] < 2 THEN txt(1, 8)
  ELSE txt(1, best - 1) \o <<COLON, COLON>> \o txt(best + runs[best], 8)

\* host text possibly carrying a zone id: <<address text, has zone, zone text>>
ZoneSplit(h) == Partition(h, PCT)
\* canonical text of an IPv6 host (zone kept verbatim), <<>> if the address part is not IPv6
CanonIPv6Host(h) ==
  LET z == ZoneSplit(h) g == ParseIPv6(z[1]) IN
  IF g = <<>> THEN <<>> ELSE Compressed(g) \o (IF z[2] THEN <<PCT>> \o z[3] ELSE <<>>)
=============================================================================
