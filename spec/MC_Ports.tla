------------------------------ MODULE MC_Ports ------------------------------
(***************************************************************************)
(* R1 for C17: the full product scheme x userinfo x host kind x port text; *)
(* Level I (SplitNetloc, ExplicitPort, Str, HostSubcomponent) against the  *)
(* Level A port table (C17_* clauses of ContractUrl).                      *)
(***************************************************************************)
EXTENDS ContractUrl, ImplOps, TLC

Schemes == { <<>>, <<104,116,116,112>>, <<104,116,116,112,115>>, <<119,115>>, <<119,115,115>>, <<102,116,112>>, <<120>> }
UserInfos == { <<>>, <<117,64>>, <<117,58,112,64>> }               \* "", "u@", "u:p@"
Hosts == { <<104>>, <<49,46,50,46,51,46,52>>, <<91,58,58,49,93>>, <<91,102,101,56,48,58,58,49,37,50,53,101,93>>, <<104,46>>, <<>>, <<72,46,67>> }   \* h 1.2.3.4 [::1] [fe80::1%25e] h. (empty) H.C
PortTexts == { <<>>, <<58>>, <<58,48>>, <<58,49>>, <<58,50,49>>, <<58,56,48>>, <<58,48,56,48>>, <<58,56,49>>, <<58,52,52,51>>,
               <<58,54,53,53,51,53>>, <<58,54,53,53,51,54>>, <<58,57,57,57,57,57,57>>, <<58,45,49>>, <<58,97>>, <<58,56,97>>, <<58,43,56,48>> }

VARIABLE u
Init == u \in { Url(sc, ui \o h \o pt, <<47,97>>, <<>>, <<>>) : sc \in Schemes, ui \in UserInfos, h \in Hosts, pt \in PortTexts }
Next == UNCHANGED u

Opt(r) == IF IsOK(r) THEN [ok |-> r.ok] ELSE [exc |-> "ValueError"]
PortOf(u0) == LET ep == ExplicitPort(u0) IN
   IF ~IsOK(ep) THEN ep ELSE IF ~IsNone(ep.ok) THEN ep ELSE OK(DefaultPortOf(u0.scheme))
IsDefaultPort(u0) == LET ep == ExplicitPort(u0) IN
   IF ~IsOK(ep) THEN ep ELSE IF IsNone(ep.ok) THEN OK(u0.netloc # <<>>) ELSE OK(ep.ok = DefaultPortOf(u0.scheme))
HostPortSub(u0) ==
  LET rh == RawHost(u0) ep == ExplicitPort(u0) IN
  IF ~IsOK(rh) THEN rh ELSE IF IsNone(rh.ok) THEN OK(NONE)
  ELSE LET raw == RStripSet(Get(rh.ok), {DOT})
           h == IF Has(raw, COLON) THEN <<LBR>> \o raw \o <<RBR>> ELSE raw IN
       IF IsNone(ep.ok) \/ ep.ok = DefaultPortOf(u0.scheme) THEN OK(SOME(h)) ELSE OK(SOME(h \o <<COLON>> \o NatText(Get(ep.ok))))
Obs == [val |-> [ok |-> <<u.scheme, u.netloc, u.path, u.query, u.fragment>>],
        explicit_port |-> Opt(ExplicitPort(u)), port |-> Opt(PortOf(u)), is_default_port |-> Opt(IsDefaultPort(u)),
        str |-> Opt(Str(u)), host_subcomponent |-> Opt(HostSubcomponent(u)), host_port_subcomponent |-> Opt(HostPortSub(u))]
Inv_Fallback == C17_PortFallback(Obs)
Inv_Range == C17_Range(Obs)
Inv_StrPort == C17_StrPort(Obs)
Inv_HostPortSub == C17_HostPortSub(Obs)
\* C09: what encode_url pre-fills (eager) equals what _cache_netloc derives later from the stored netloc (lazy).
\* The string form of the cell is its own source text here (str of the five parts, re-parsed by the eager route).
SourceText == UnsplitResult(u.scheme, u.netloc, u.path, u.query, u.fragment)
EmptyHostCell == SplitAuthority(u.netloc).host = <<>>
Inv_EagerIsLazy ==
  LET e == EagerCache("c", SourceText) r == EncodeUrl("c", SourceText) IN
  ("none" \in DOMAIN e \/ ~IsOK(r)) \/ EmptyHostCell \/
    /\ OK(e.raw_host) = RawHost(r.ok) /\ OK(e.explicit_port) = ExplicitPort(r.ok)
    /\ OK(e.raw_user) = RawUser(r.ok) /\ OK(e.raw_password) = RawPassword(r.ok)
Inv_EagerIsLazy_NoExclusion ==
  LET e == EagerCache("c", SourceText) r == EncodeUrl("c", SourceText) IN
  ("none" \in DOMAIN e \/ ~IsOK(r)) \/
    /\ OK(e.raw_host) = RawHost(r.ok) /\ OK(e.explicit_port) = ExplicitPort(r.ok)
    /\ OK(e.raw_user) = RawUser(r.ok) /\ OK(e.raw_password) = RawPassword(r.ok)
Inv_PortText == C07_AuthoritySplit(Obs @@ [raw_user |-> Opt(RawUser(u)), raw_password |-> Opt(RawPassword(u)), raw_host |-> Opt(RawHost(u))])
=============================================================================
