------------------------------ MODULE MC_Query ------------------------------
(***************************************************************************)
(* R1 for C12: existing queries x argument pair lists over small key/value *)
(* sets; Level I (ImplUrl!UpdatePairsSeq = multidict's update algorithm,   *)
(* concatenation for extend, filter for without_query_params) against the  *)
(* Level A multi-dict algebra of ContractUrl (C12_* relations).            *)
(***************************************************************************)
EXTENDS ContractUrl, ImplUrl, TLC
Keys == { <<97>>, <<98>>, <<>> }
Vals == { <<49>>, <<50>> }
PairSet == { <<k, v>> : k \in Keys, v \in Vals }
SeqsUpTo(S, n) == UNION { [1..m -> S] : m \in 0..n }
VARIABLES old, new
Init == old \in SeqsUpTo(PairSet, 4) /\ new \in SeqsUpTo(PairSet, 3)
Next == UNCHANGED <<old, new>>
QArg == [form |-> "pairs", s |-> <<>>, pairs |-> [i \in 1..Len(new) |-> <<new[i][1], [t |-> "str", s |-> new[i][2]]>>]]
ObsQ(ps) == [query |-> [ok |-> ps]]
\* Level I contains multidict 6.2.0's index-shift deviation (a KNOWN FINDING): wherever it does not show -- the faithful and
\* the intended drop-tails loop agree -- Level I satisfies the contract; the intended algorithm satisfies it everywhere; and
\* the negative configuration (no exclusion) makes TLC exhibit the deviation
ShiftShows == UpdatePairsSeqWith(TRUE, old, new) # UpdatePairsSeqWith(FALSE, old, new)
Inv_Update == ShiftShows \/ C12_UpdateQuery(QArg, ObsQ(old), [ok |-> ObsQ(UpdatePairsSeq(old, new))])
Inv_UpdateIntended == C12_UpdateQuery(QArg, ObsQ(old), [ok |-> ObsQ(UpdatePairsSeqWith(FALSE, old, new))])
Inv_Update_NoExclusion == C12_UpdateQuery(QArg, ObsQ(old), [ok |-> ObsQ(UpdatePairsSeq(old, new))])
Inv_Extend == C12_ExtendQuery(QArg, ObsQ(old), [ok |-> ObsQ(old \o new)])
Inv_With   == C12_WithQuery(QArg, ObsQ(old), [ok |-> ObsQ(new)])
Inv_Without == \A ks \in SUBSET Keys :
   LET kseq == CHOOSE sq \in [1..Cardinality(ks) -> ks] : Range(sq) = ks IN
   C12_Without(kseq, ObsQ(old), [ok |-> ObsQ(SelectSeq(old, LAMBDA p : p[1] \notin ks))])
\* update is idempotent and only touches the keys of the argument
Inv_UpdateIdempotent == LET U(o) == UpdatePairsSeqWith(FALSE, o, new) IN U(U(old)) = U(old)
=============================================================================
