"""One deterministic witness per listed known finding (known_findings.json, kind=known): the call that exhibits it, in the call
format of the driver that records it.  Every check runs the witnesses of its property on every run, so a KNOWN-FINDING line is
printed for each listed finding as long as the defect exists -- and stops being printed (nothing is suppressed) once it is gone."""
T = lambda s: [ord(c) for c in s]  # noqa: E731


def ctor(s, enc=False):
    return {"op": "ctor", "s": T(s), "encoded": enc}


QSTR = lambda s: {"form": "str", "s": T(s), "pairs": []}  # noqa: E731
PAIRS = lambda *kv: {"form": "pairs", "s": [], "pairs": [[T(k), {"t": "str", "s": T(v)}] for k, v in kv]}  # noqa: E731

# (property, finding id) -> (driver, call)
W = {
    ("C03", "empty-host"): ("url", {"prog": [ctor("git+ssh://:@:21/a"), {"op": "parent"}], "extras": ["reparse"]}),
    ("C03", "first-segment-colon"): ("url", {"prog": [{"op": "build", "kw": {"path": T("a:b")}}], "extras": ["reparse"]}),
    ("C03", "empty-host-default-port-str"): ("url", {"prog": [ctor("mailto://u:p@:80/"), {"op": "with_scheme", "v": T("http")}], "extras": ["reparse"]}),
    ("C05", "py-quoter-drops-surrogates-first"): ("quote", {"kind": "quote", "name": "REQUOTER", "in": T("%\ud800AB")}),
    ("C06", "query-decode-replaces"): ("url", {"prog": [ctor("http://h/?a=%FF")]}),
    ("C07", "first-segment-colon"): ("url", {"prog": [ctor("%41:443")]}),
    ("C07", "bracketed-non-ipv6-loses-brackets"): ("url", {"prog": [ctor("//a[:]/ws")]}),
    ("C07", "empty-host-default-port-str"): ("url", {"prog": [ctor("ftp://u@:21/x", True)]}),
    ("C09", "empty-host"): ("url", {"prog": [ctor("x://u:p@:80/p")], "extras": ["twin"]}),
    ("C10", "ordering-on-raw-tuple"): ("cmp", {"progs": [[ctor("http://a")], [ctor("http://a/")]]}),
    ("C11", "empty-host"): ("url", {"prog": [ctor("x://u:p@:80/p?q#f"), {"op": "origin"}]}),
    ("C12", "multidict-update-index-shift"): ("url", {"prog": [ctor("/?a=1&a=2&b=1&b=2"), {"op": "update_query", "q": PAIRS(("a", "x"), ("b", "y"))}],
                                                      "fields": ["str", "val", "query", "raw_query_string"]}),
    ("C13", "with-suffix-requotes-raw-name"): ("alt", {"base": ctor("http://h/b%20c.txt"), "family": "with_suffix", "args": {"x": T(".md")},
                                                       "alts": [[{"op": "with_suffix", "v": T(".md"), "keep_query": False, "keep_fragment": False}]]}),
    ("C14", "join-rootless-base"): ("url", {"prog": [ctor("http:b/c"), {"op": "join", "ref": ctor("..")}], "fields": ["str", "val"]}),
    ("C15", "make-child-dotdot-eats-root"): ("url", {"prog": [ctor("http://h"), {"op": "truediv", "v": T("..//x")}]}),
    ("C16", "bracketed-non-ipv6-loses-brackets"): ("url", {"prog": [ctor("http://[v1.fe:80]/p")]}),
    ("C18", "human-repr-nfkc-userinfo"): ("url", {"prog": [{"op": "build", "kw": {"scheme": T("http"), "host": T("h"), "user": [T("\u2100")]}}],
                                                  "extras": ["human"], "fields": ["str", "val", "human_repr", "host", "raw_host", "user", "password"]}),
    ("C19", "bracketed-non-ipv6-loses-brackets"): ("url", {"prog": [ctor("http://[:a]"), {"op": "with_fragment", "v": [T("f")]}]}),
}
