"""C08 history runner (child process; imports yarl from the scratch copy).

  python -m vlib.memrun <outdir> <seed> <nhist> <nsteps> [threads]

Each history is a random program over a shared pool of URL objects, executed TWICE in one trace:
  cold: every internal lru_cache is emptied before every step and every operand is replaced by an unpickled twin
  warm: caches sized 1-2 by cache_configure, a long history, operands shared
Every step emits FACTS (key, value) -- see spec/TraceMem.tla.  Python only records; TLC decides."""
import copy
import json
import pickle
import random
import sys

from vlib.drivers import url as U
from vlib.gens import progs
from vlib.obs import ALL_FIELDS, exc_name, obs

POOL = ["http://example.com", "http://example.com/", "http://u:p@example.com:8080/a%2Fb/c%20d.txt?x=1&y=2#frag",
        "https://[::1]:8443/p/q.tar.gz?a=1", "http://example.com:80/x", "/a/b", "a/b", "", "?q=1", "mailto:user@example.com",
        "http://bücher.example/straße", "http://[fe80::1%25eth0]:80/", "http://example.com/a;p=1/b;q", "HTTP://EXAMPLE.com/%7efoo",
        "http://example.com/?a=1&b=2&a=3#f", "http://h/a/../b/./c", "//example.com/a", "http://1.2.3.4:0/", "http://Ab_c.é.com/x",
        "http://example.com:443/x", "https://example.com:80/", "ws://u@example.com:443", "ftp://example.com:80/a",
        "http://h/a%2Fb", "http://h/a%25b/c%2Fd?x=0.0", "http://example.com.:8080/p",
        # pairs (a, str(a)): the printed form of the first is the text of the second
        "http://example.com/x", "https://example.com/", "https://example.com:443/", "ws://u@example.com"]
READ_FIELDS = [f for f in ALL_FIELDS if f not in ("val",)]
# raw components that end in a truncated escape run / begin with a continuation byte / contain malformed escapes: reading one
# right after another must not carry decoder state over (process-global quoter and unquoter objects are shared)
SPECIAL = ["http://example.org/#tail-%E2%82", "http://example.com/#%ACrest", "http://example.com/a%E2%82/%ACb", "http://h/%F0%9F%98",
           "http://h/%80x", "http://u%E2:p%82@h/%AC", "http://h/?a=%E2%82&%AC=1", "http://h/x%", "http://h/%4", "http://h/%C3", "http://h/%A9?%C3=%A9#%C3",
           "http://h/" + "a" * 8190 + "%C3", "http://h/" + "é" * 1400 + "%E2%82"]
MOD_OPS = ["with_user", "with_password", "with_fragment", "with_path", "with_name", "with_suffix", "truediv", "joinpath",
           "with_query", "extend_query", "update_query", "with_host", "with_scheme", "with_port", "without_query_params",
           "parent", "origin", "relative", "join"]


def J(x):
    return json.dumps(x, sort_keys=True, ensure_ascii=True, separators=(",", ":"))


def val5(u):
    return [list(map(ord, p)) for p in u.__getstate__()[0]]


def outcome_of(f):
    try:
        r = f()
    except Exception as e:  # noqa: BLE001
        return {"exc": exc_name(e)}, None
    return r, r


def canon_result(r, yarl):
    if isinstance(r, yarl.URL):
        try:
            s = str(r)
        except Exception as e:  # noqa: BLE001
            s = {"exc": exc_name(e)}
        return {"url": val5(r), "str": s}
    if isinstance(r, dict) and "exc" in r:
        return r
    if isinstance(r, (bool, int, str)) or r is None:
        return r
    return repr(r)


HOUSEKEEPING = []      # failures of the harness's OWN calls of the public cache API (reported as an event, never fatal)


def reset_caches(yarl):
    """yarl.cache_configure() with the default sizes, as housekeeping between runs; if the public call itself fails that is
    an observation (an event with `crash`), not a reason for the harness to die"""
    try:
        yarl.cache_configure()
    except Exception as e:  # noqa: BLE001
        HOUSEKEEPING.append(exc_name(e) + ":" + str(e)[:160])


def clear_all_lru(yarl):
    """empty EVERY functools cache of the yarl modules -- discovered dynamically, so a cache added by a later change is
    found too (the cold run must really be cold)"""
    import sys
    for name, mod in list(sys.modules.items()):
        if name == "yarl" or name.startswith("yarl."):
            for obj in list(vars(mod).values()):
                cc = getattr(obj, "cache_clear", None)
                if callable(cc) and hasattr(obj, "cache_info"):
                    try:
                        cc()
                    except Exception:  # noqa: BLE001
                        pass


def gen_history(rnd, nsteps):
    """program: list of abstract steps over slot indices (resolved at run time modulo pool size)"""
    steps = []
    for _ in range(nsteps):
        r = rnd.random()
        if r < 0.15:
            steps.append({"k": "new", "s": rnd.choice(POOL), "encoded": rnd.random() < 0.2})
        elif r < 0.2:
            steps.append({"k": "build", "st": progs.rnd_build(rnd)})
        elif r < 0.45:
            steps.append({"k": "modify", "slot": rnd.randrange(1000), "st": progs.rnd_step(rnd, MOD_OPS, typed=True), "ref": rnd.randrange(1000),
                          "read_before": rnd.random() < 0.6, "read_after": rnd.random() < 0.7})
        elif r < 0.5:
            # the same modifier on two URLs that compare EQUAL but are distinguishable ('' vs '/' path under an authority)
            steps.append({"k": "eqpair", "slot": rnd.randrange(1000), "order": rnd.random() < 0.5,
                          "st": rnd.choice([{"op": "with_port", "v": progs.tv_of(8080)}, {"op": "with_port", "v": progs.tv_of(None)},
                                            {"op": "with_password", "v": [progs.T("pw")]}, {"op": "with_user", "v": [progs.T("usr")]},
                                            {"op": "with_scheme", "v": progs.T("https")}, {"op": "with_fragment", "v": [progs.T("fr")]},
                                            {"op": "with_host", "v": progs.T("other.example")},
                                            {"op": "with_query", "q": {"form": "str", "s": progs.T("k=v"), "pairs": []}}])})
        elif r < 0.515:
            # the verbatim twin of a pool URL: URL(str(u), encoded=True) -- an object of its own, handed out by another cache
            steps.append({"k": "strtwin", "slot": rnd.randrange(1000)})
        elif r < 0.53:
            # the same modifier with ARGUMENTS that compare equal (and hash alike) but must render differently: 0.0 / -0.0 / 0,
            # 1 / 1.0, 2**53 / float(2**53) -- whichever is seen first must not decide what the other one yields
            fam = rnd.choice([[0.0, -0.0, 0], [1, 1.0], [2 ** 53, float(2 ** 53)], [-1, -1.0], [10 ** 16, 1e16]])
            steps.append({"k": "eqargs", "slot": rnd.randrange(1000), "op": rnd.choice(["with_query", "extend_query", "update_query"]),
                          "form": rnd.choice(["pairs", "mapping", "kwargs", "multidict"]), "vals": [progs.tv_of(v) for v in fam],
                          "order": rnd.random() < 0.5})
        elif r < 0.7:
            steps.append({"k": "read", "slot": rnd.randrange(1000), "fields": rnd.sample(READ_FIELDS, rnd.choice((1, 2, 4, 8)))})
        elif r < 0.75:
            steps.append({"k": "readseq", "urls": rnd.sample(SPECIAL, 2), "encoded": rnd.random() < 0.7,
                          "fields": rnd.sample(["fragment", "path", "parts", "name", "user", "password", "query_string", "path_safe",
                                                "human_repr", "query", "suffix"], 3)})
        elif r < 0.8:
            steps.append({"k": "cmp", "a": rnd.randrange(1000), "b": rnd.randrange(1000)})
        elif r < 0.85:
            steps.append({"k": "pickle", "slot": rnd.randrange(1000), "how": rnd.choice(["pickle", "copy", "deepcopy", "reuse"])})
        elif r < 0.9:
            steps.append({"k": "hash", "slot": rnd.randrange(1000)})
        elif r < 0.93:
            steps.append({"k": "cache_clear"})
        elif r < 0.97:
            steps.append({"k": "cache_configure", "sizes": {n: rnd.choice([0, 1, 2, 3, -1, 256]) for n in ("idna_encode", "idna_decode", "encode_host")}})
        else:
            steps.append({"k": "cache_info"})
    return steps


def run_history(yarl, steps, mode, run_id, rnd):
    """yields events"""
    pool = [yarl.URL(POOL[0]), yarl.URL(POOL[3])]
    gen = [0, 1]            # generation id of each slot object (identity facts)
    nextgen = 2
    reset_caches(yarl)   # defaults
    yield {"kind": "cache_configure", "mode": mode, "step": -2, "facts": [],
           "sizes": {"idna_encode": 256, "idna_decode": 256, "encode_host": 512}}
    if mode == "warm":
        yarl.cache_configure(idna_encode_size=1, idna_decode_size=2, encode_host_size=1)
        yield {"kind": "cache_configure", "mode": mode, "step": -1, "facts": [],
               "sizes": {"idna_encode": 1, "idna_decode": 2, "encode_host": 1}}
    for i, st in enumerate(steps):
        if mode == "cold":
            clear_all_lru(yarl)
        ev = {"kind": st["k"], "mode": mode, "step": i, "facts": []}
        facts = ev["facts"]

        def slot(n):
            j = n % len(pool)
            if mode == "cold":
                pool[j] = pickle.loads(pickle.dumps(pool[j]))     # fresh twin: nothing memoised on the object
            return j

        def add(u):
            nonlocal nextgen
            if len(pool) >= 24:
                j = rnd.randrange(2, len(pool))
                pool[j] = u
                gen[j] = nextgen
            else:
                pool.append(u)
                gen.append(nextgen)
            nextgen += 1
        def pre(f):
            """faulted mode: the call is first attempted with 1..60 stack frames left (outcomes discarded) -- a failed call is
            history too, and must leave nothing behind that changes the result of the same call made properly"""
            if mode == "faulted":
                U.under_recursion_faults(f)
        k = st["k"]
        try:
            if k == "new":
                pre(lambda: yarl.URL(st["s"], encoded=st["encoded"]))
                res, u = outcome_of(lambda: yarl.URL(st["s"], encoded=st["encoded"]))
                facts.append({"k": "call:" + J(["URL", st["s"], st["encoded"]]), "v": J(canon_result(res, yarl))})
                if u is not None:
                    add(u)
            elif k == "build":
                pre(lambda: U._create(st["st"]))
                res, u = outcome_of(lambda: U._create(st["st"]))
                facts.append({"k": "call:" + J(["build", st["st"]]), "v": J(canon_result(res, yarl))})
                if u is not None:
                    add(u)
            elif k == "modify":
                j = slot(st["slot"])
                recv = pool[j]
                if st.get("read_before"):         # fill the receiver's per-object cache first (random order)
                    v5 = J(val5(recv))
                    for f, v in obs(recv, READ_FIELDS).items():
                        facts.append({"k": "acc:" + v5 + "." + f, "v": J(v)})
                other = None
                stp = st["st"]
                key_extra = None
                if stp["op"] == "join":
                    other = pool[slot(st["ref"])]
                    key_extra = val5(other)
                    stp = {"op": "join"}
                argobj = before = None
                if stp["op"] in ("with_query", "extend_query", "update_query") and stp["q"]["form"] not in ("none", "str"):
                    a_, kw_ = U.qarg_py(stp["q"])
                    argobj = a_[0] if a_ else kw_
                    before = copy.deepcopy(argobj)
                    if stp["q"]["form"] == "kwargs":
                        res, u = outcome_of(lambda: getattr(recv, stp["op"])(**argobj))
                    else:
                        res, u = outcome_of(lambda: getattr(recv, stp["op"])(argobj))
                    facts.append({"k": "argunchanged:" + J([stp, i, mode]), "v": J(U._same(argobj, before))})
                    facts.append({"k": "argunchanged:" + J([stp, i, mode]), "v": "true"})
                else:
                    pre(lambda: str(U._apply(recv, stp, other)))
                    res, u = outcome_of(lambda: U._apply(recv, stp, other))
                facts.append({"k": "call:" + J([stp, val5(recv), key_extra]), "v": J(canon_result(res, yarl))})
                if u is not None and isinstance(u, yarl.URL):
                    if st.get("read_after"):      # everything the derived URL says about itself, right away, in random order
                        v5 = J(val5(u))
                        for f, v in obs(u, READ_FIELDS).items():
                            facts.append({"k": "acc:" + v5 + "." + f, "v": J(v)})
                    add(u)
            elif k == "eqpair":
                j = slot(st["slot"])
                a = pool[j]
                v = a.__getstate__()[0]
                if v[1] and v[2] in ("", "/") :
                    from urllib.parse import SplitResult
                    b = yarl.URL(SplitResult(v[0], v[1], "/" if v[2] == "" else "", v[3], v[4]), encoded=True)
                    pair = [a, b] if st["order"] else [b, a]
                    # both orders, each from empty caches: whichever of two EQUAL URLs is seen first must not decide the other's result
                    for order in (pair, pair[::-1]):
                        clear_all_lru(yarl)
                        for w in order:
                            res, u = outcome_of(lambda: U._apply(w, st["st"], None))
                            facts.append({"k": "call:" + J([st["st"], val5(w), None]), "v": J(canon_result(res, yarl))})
            elif k == "strtwin":
                u = pool[slot(st["slot"])]
                res, t = outcome_of(lambda: yarl.URL(str(u), encoded=True))
                facts.append({"k": "call:" + J(["strtwin", val5(u)]), "v": J(canon_result(res, yarl))})
                if t is not None:
                    add(t)
            elif k == "eqargs":
                recv = pool[slot(st["slot"])]
                stps = [{"op": st["op"], "q": {"form": st["form"], "s": [], "pairs": [[progs.T("k"), v]]}} for v in st["vals"]]
                if not st["order"]:
                    stps = stps[::-1]
                for order in (stps, stps[::-1]):       # both orders, each from empty caches
                    clear_all_lru(yarl)
                    for stp in order:
                        res, u = outcome_of(lambda: U._apply(recv, stp, None))
                        facts.append({"k": "call:" + J([stp, val5(recv), None]), "v": J(canon_result(res, yarl))})
            elif k == "read":
                j = slot(st["slot"])
                pre(lambda: obs(pool[j], st["fields"]))
                o = obs(pool[j], st["fields"])
                v5 = J(val5(pool[j]))
                for f, v in o.items():
                    facts.append({"k": "acc:" + v5 + "." + f, "v": J(v)})
            elif k == "readseq":
                for s_ in st["urls"]:
                    res, u = outcome_of(lambda: yarl.URL(s_, encoded=st["encoded"]))
                    if u is not None:
                        o = obs(u, st["fields"])
                        v5 = J(val5(u))
                        for f, v in o.items():
                            facts.append({"k": "acc:" + v5 + "." + f, "v": J(v)})
            elif k == "cmp":
                a, b = pool[slot(st["a"])], pool[slot(st["b"])]
                for name, f in (("eq", lambda: a == b), ("lt", lambda: a < b), ("le", lambda: a <= b), ("hasheq", lambda: hash(a) == hash(b))):
                    res, _ = outcome_of(f)
                    facts.append({"k": "call:" + J([name, val5(a), val5(b)]), "v": J(canon_result(res, yarl))})
            elif k == "hash":
                u = pool[slot(st["slot"])]
                res, _ = outcome_of(lambda: (hash(u) == hash(pickle.loads(pickle.dumps(u))), str(u), bool(u), repr(u), bytes(u).decode()))
                facts.append({"k": "call:" + J(["hash-str-bool", val5(u)]), "v": J(canon_result(res if isinstance(res, dict) else list(res), yarl))})
            elif k == "pickle":
                u = pool[slot(st["slot"])]
                how = st["how"]
                f = {"pickle": lambda: pickle.loads(pickle.dumps(u)), "copy": lambda: copy.copy(u), "deepcopy": lambda: copy.deepcopy(u),
                     "reuse": lambda: yarl.URL(u)}[how]
                res, t = outcome_of(f)
                facts.append({"k": "call:" + J([how, val5(u)]), "v": J(canon_result(res, yarl))})
                if t is not None:
                    add(t)
                if mode == "warm":        # a round trip must not touch ANY existing object: all of them, not a sample
                    for j2 in range(len(pool)):
                        facts.append({"k": f"obj:{run_id}:{gen[j2]}", "v": J(val5(pool[j2]))})
            elif k == "cache_clear":
                yarl.cache_clear()
            elif k == "cache_configure":
                sz = {n: (None if v == -1 else v) for n, v in st["sizes"].items()}
                if mode == "warm":
                    yarl.cache_configure(idna_encode_size=sz["idna_encode"], idna_decode_size=sz["idna_decode"],
                                         encode_host_size=sz["encode_host"])
                    ev["sizes"] = st["sizes"]
                else:
                    ev["kind"] = "noop"
            elif k == "cache_info":
                if mode == "warm":
                    info = yarl.cache_info()
                    ev["info"] = {n: {"maxsize": -1 if info[n].maxsize is None else info[n].maxsize, "currsize": info[n].currsize}
                                  for n in ("idna_encode", "idna_decode", "encode_host")}
                else:
                    ev["kind"] = "noop"
        except Exception as e:  # noqa: BLE001 - the harness itself must not die silently
            ev["crash"] = exc_name(e) + ":" + str(e)[:200]
        # identity facts: the five parts of some live objects must never change (warm run only: cold replaces objects)
        if mode == "warm":
            for j in rnd.sample(range(len(pool)), min(4, len(pool))):
                facts.append({"k": f"obj:{run_id}:{gen[j]}", "v": J(val5(pool[j]))})
        if mode == "warm" and ev["kind"] == "cache_configure" and "sizes" not in ev:
            ev["kind"] = "noop"
        yield ev


def main():
    outdir, seed, nhist, nsteps = sys.argv[1], int(sys.argv[2]), int(sys.argv[3]), int(sys.argv[4])
    import os

    import yarl
    be = "py" if os.environ.get("YARL_NO_EXTENSIONS") else "c"
    U.setup({})
    for h in range(nhist):
        rnd = random.Random(seed * 100003 + h)
        steps = gen_history(rnd, nsteps)
        events = []
        for mode in ("cold", "faulted", "warm", "cold"):
            events += list(run_history(yarl, steps, mode, f"{h}-{mode}{len(events)}", random.Random(seed + h)))
        if HOUSEKEEPING:
            events.append({"kind": "housekeeping", "facts": [], "crash": "cache_configure():" + HOUSEKEEPING[0]})
            del HOUSEKEEPING[:]
        for n, ev in enumerate(events):
            ev["id"] = f"{be}.h{seed}.{h}.{n}"
        with open(f"{outdir}/hist-{seed}-{h}.json", "w") as f:
            json.dump(events, f, separators=(",", ":"))
    print(json.dumps({"histories": nhist}))


if __name__ == "__main__":
    main()
