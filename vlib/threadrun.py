"""C20 thread runner (child process; imports yarl from the scratch copy).

  python -m vlib.threadrun <outdir> <seed> <mode> <n>
mode "stress": n rounds of 8 free-running OS threads (switch interval 1e-6) over a shared pool, with outputs above and
               below 8 KiB through the compiled quoter's static buffer and concurrent cache_clear()/cache_configure()
mode "sched":  n deterministic two-thread executions under a sys.settrace baton scheduler (every line of yarl/*.py is a
               yield point; the schedule is a seeded sequence of choices with a bounded number of pre-emptions)
Every round is one trace: first the programs run SEQUENTIALLY (seeding the facts), then concurrently; TraceMem.tla
requires every fact of the concurrent run to equal the sequential one (values only -- no wall clock, no ordering)."""
import json
import os
import random
import sys
import threading

from vlib.memrun import HOUSEKEEPING, J, canon_result, clear_all_lru, outcome_of, reset_caches, val5
from vlib.obs import exc_name, obs

DIGITS = 700        # main() lowers the interpreter's int <-> str digit limit to its minimum (640), so 700 digits are "too many"
HUGEPORT = "http://example.com:" + "0" * DIGITS + "8080/t"      # int() of the port text exceeds the digit limit: ValueError
STRS = ["http://u:p@EXample.com:80/a%20b/../c?x=1#f", "http://example.com/é/ü?q=é#ü", "https://[2001:DB8::1]:8443/p/q.tar.gz?a=1&b=2",
        "http://bücher.example/straße", "/a/b/../c", "http://example.com/?a=1&b=2&a=3", "http://Ab_c.é.com/x"]
FIELDS = ["str", "raw_user", "raw_password", "raw_host", "host", "port", "explicit_port", "raw_path", "path", "query", "raw_parts",
          "parts", "name", "authority", "host_port_subcomponent", "human_repr", "fragment", "query_string", "is_default_port"]


def make_prog(rnd, marker, nops):
    ops = []
    for _ in range(nops):
        r = rnd.random()
        if r < 0.25:
            ops.append(("ctor", rnd.choice(STRS + [HUGEPORT])))
        elif r < 0.5:
            ops.append(("read", rnd.choice(STRS), rnd.sample(FIELDS, rnd.choice((1, 3, 6)))))
        elif r < 0.7:
            ops.append(("derive", rnd.choice(STRS), rnd.choice(["div", "with_query", "with_host", "with_port", "with_path", "join", "origin",
                                                              "with_user", "parent", "with_fragment", "with_query_bigint", "with_query_floats", "update_query",
                                                              "extend_query", "without_query_params", "mod", "relative", "with_name", "joinpath", "join_up"])))
        elif r < 0.85:
            # a component that needs quoting and whose quoted form is above / below 8 KiB, tagged with the thread's marker
            n = rnd.choice((50, 1400, 2800, 4200, 9000))
            ops.append(("bigquote", marker, n, rnd.choice(["path", "query", "fragment"])))
        elif r < 0.88:
            ops.append(("ambient",))
        elif r < 0.92:
            ops.append(("clear",))
        else:
            ops.append(("configure", rnd.choice([0, 1, 2, None, 256])))
    return ops


def run_op(yarl, op, facts):
    URL = yarl.URL
    k = op[0]
    if k == "ctor":
        res, _ = outcome_of(lambda: URL(op[1]))
        facts.append({"k": "call:" + J(["URL", op[1]]), "v": J(canon_result(res, yarl))})
    elif k == "read":
        u = URL(op[1])
        o = obs(u, op[2])
        v5 = J(val5(u))
        for f, v in o.items():
            facts.append({"k": "acc:" + v5 + "." + f, "v": J(v)})
    elif k == "derive":
        u = URL(op[1])
        f = {"div": lambda: u / "x y", "with_query": lambda: u.with_query(a="é", b="1 2"), "with_host": lambda: u.with_host("Straße.example"),
             "with_port": lambda: u.with_port(8081), "with_path": lambda: u.with_path("/p/../q é"), "join": lambda: u.join(URL("s/t;p?y#z")), "join_up": lambda: u.join(URL("../g?y#z")),
             "origin": lambda: u.origin(), "with_user": lambda: u.with_user("ü:x"), "parent": lambda: u.parent,
             "with_fragment": lambda: u.with_fragment("frag ment"),
             # values whose rendering goes through interpreter-wide limits: an int beyond the str() digit limit (a ValueError, the same
             # in every thread), floats incl. both zeros
             "update_query": lambda: u.update_query({"a": "9", "new": "é"}), "extend_query": lambda: u.extend_query([("z", "1 2")]),
             "without_query_params": lambda: u.without_query_params("a", "q"), "mod": lambda: u % {"m": "1"},
             "relative": lambda: u.relative() if u.absolute else u, "with_name": lambda: u.with_name("n m.txt") if u.raw_name else u,
             "joinpath": lambda: u.joinpath("x/", "y z"),
             "with_query_bigint": lambda: u.with_query(n=10 ** DIGITS), "with_query_floats": lambda: u.with_query(a=-0.0, b=0.0, c=1e16)}[op[2]]
        res, r = outcome_of(f)
        facts.append({"k": "call:" + J([op[2], op[1]]), "v": J(canon_result(res, yarl))})
        if r is not None:
            o = obs(r, ["str", "raw_host", "path", "query"])
            for fld, v in o.items():
                facts.append({"k": "acc:" + J(val5(r)) + "." + fld, "v": J(v)})
    elif k == "bigquote":
        marker, n, where = op[1], op[2], op[3]
        text = (marker + " é") * n
        base = URL("http://example.com/")
        f = {"path": lambda: base.with_path("/" + text), "query": lambda: base.with_query({"k": text}),
             "fragment": lambda: base.with_fragment(text)}[where]
        res, r = outcome_of(f)
        # the value is long: record a digest-free but complete comparison through its own re-decoding
        if r is not None:
            back = {"path": lambda: r.path[1:], "query": lambda: r.query["k"], "fragment": lambda: r.fragment}[where]()
            ok = back == text and str(r).isascii()
            facts.append({"k": "call:" + J(["bigquote", marker, n, where]), "v": J({"roundtrip": ok, "len": len(str(r))})})
        else:
            facts.append({"k": "call:" + J(["bigquote", marker, n, where]), "v": J(res)})
    elif k == "ambient":
        # process-wide interpreter settings: no API call may leave -- or, seen from another thread, even temporarily put -- them
        # in a different state
        facts.append({"k": "ambient:int_max_str_digits", "v": J(sys.get_int_max_str_digits())})
        facts.append({"k": "ambient:recursionlimit", "v": J(sys.getrecursionlimit())})
    elif k == "fresh":
        # values never seen before (distinct dotted paths / hosts / queries): misses in every module-level memo, i.e. stores and,
        # once a memo is full, evictions -- concurrently
        tag = op[1]
        for f in (lambda: URL(f"http://h{tag}.example/a/./{tag}/../b/%2e/c?x={tag}"), lambda: URL("http://example.com/q").with_path(f"/p/./{tag}/../r"),
                  lambda: URL("http://example.com/a/b").join(URL(f"../{tag}/./s")), lambda: URL(f"/rel/{tag}/../t") / f"u{tag}" ):
            res, _ = outcome_of(f)
            if isinstance(res, dict) and "exc" in res:
                raise RuntimeError("a valid, never seen value raised " + str(res))
    elif k == "clear":
        yarl.cache_clear()
    elif k == "configure":
        import warnings
        with warnings.catch_warnings():
            warnings.simplefilter("ignore")
            yarl.cache_configure(idna_encode_size=op[1], idna_decode_size=op[1], encode_host_size=op[1])


import re as _re
_EXC_RE = _re.compile(r'"exc":\s*"([A-Za-z_]+)"')


def run_prog(yarl, ops, tid, phase, events):
    for i, op in enumerate(ops):
        ev = {"kind": "thread-" + op[0], "tid": tid, "seq": i, "phase": phase, "facts": []}
        try:
            run_op(yarl, op, ev["facts"])
        except BaseException as e:  # noqa: BLE001
            ev["crash"] = exc_name(e) + ":" + str(e)[:200]
        # every exception class that showed up in this step's observations (call outcomes and accessor reads)
        excs = sorted({m for f in ev["facts"] for m in _EXC_RE.findall(f["v"])})
        if excs:
            ev["excs"] = excs
        events.append(ev)


class Sched:
    """Baton-passing deterministic scheduler: every 'line' event in the scratch yarl/*.py is a yield point."""

    def __init__(self, choices, root):
        self.choices, self.pos, self.root = list(choices), 0, root
        self.cv = threading.Condition()
        self.current, self.alive, self.yields = None, set(), 0

    def pick(self):
        live = sorted(self.alive)
        if not live:
            self.current = None
            return
        c = self.choices[self.pos] % len(live) if self.pos < len(self.choices) else 0
        self.pos += 1
        self.current = live[c]

    def yield_point(self, tid):
        with self.cv:
            self.yields += 1
            self.pick()
            self.cv.notify_all()
            while self.current != tid:
                self.cv.wait()

    def tracer(self, tid):
        def local(frame, event, arg):
            if event == "line":
                self.yield_point(tid)
            return local

        def noop(frame, event, arg):
            return noop

        def glob(frame, event, arg):
            fn = frame.f_code.co_filename
            if fn.startswith(self.root) and fn.endswith(".py"):
                return local
            if fn.endswith(".pyx"):
                return noop
            return None
        return glob

    def run(self, bodies):
        def body(tid):
            sys.settrace(self.tracer(tid))
            with self.cv:
                while self.current != tid:
                    self.cv.wait()
            try:
                bodies[tid]()
            finally:
                sys.settrace(None)
                with self.cv:
                    self.alive.discard(tid)
                    self.pick()
                    self.cv.notify_all()
        ths = [threading.Thread(target=body, args=(i,)) for i in range(len(bodies))]
        self.alive = set(range(len(bodies)))
        for t in ths:
            t.start()
        with self.cv:
            self.pick()
            self.cv.notify_all()
        for t in ths:
            t.join()


DERIVES = ["div", "with_query", "with_host", "with_port", "with_path", "join", "origin", "with_user", "parent", "with_fragment",
           "update_query", "extend_query", "joinpath"]
# operations that may keep module-level scratch state between two calls: run concurrently on two DIFFERENT receivers
TWO_BASE = ["join", "update_query", "with_path", "div", "joinpath", "with_query", "mod"]
READ_GROUPS = [["raw_host", "port", "str"], ["host_port_subcomponent", "authority", "parts", "name"], ["query", "query_string", "human_repr"]]


def sizes_event(yarl, progs):
    """every cache_configure() of a thread program sets the three sizes to ONE value: whatever the interleaving, once all threads
    are done the three maxsizes are equal (a lost update between cache_clear() and cache_configure() would leave a mix) -- unless
    several threads configure, since cache_configure() itself is three assignments"""
    try:
        ci = yarl.cache_info()
        sizes = {ci[n].maxsize for n in ("idna_encode", "idna_decode", "encode_host")}
        if sum(1 for p_ in progs if any(op[0] == "configure" for op in p_)) > 1:
            sizes = {0}
        ok = len(sizes) == 1 or sizes == {256, 512}
        return {"kind": "cache-sizes", "facts": [{"k": "call:cache_sizes_uniform", "v": "true"},
                                                 {"k": "call:cache_sizes_uniform", "v": "true" if ok else "false:" + str(sorted(map(str, sizes)))}]}
    except Exception as e:  # noqa: BLE001
        return {"kind": "cache-sizes", "facts": [], "crash": "cache_info():" + exc_name(e)}


def systematic_pairs(yarl, be, root, seed, n_pairs, outdir, stride):
    """mode "sys1": for two-thread programs (one thread derives from a shared URL object, the other reads accessors of the
    SAME object for the first time -- or both derive, or both construct), EVERY schedule with exactly one pre-emption of
    thread 0 at yield k = 0, stride, 2*stride, ... (thread 1 then runs to completion, thread 0 resumes).  Deterministic and
    complete for these pairs up to the stride."""
    rnd = random.Random(seed * 104729 + 5)
    allev, rd, written = [], 0, 0
    templates = []
    for d in DERIVES:
        for g in READ_GROUPS:
            templates.append((("derive", d), ("read", g)))
            templates.append((("read", g), ("derive", d)))
    for d in DERIVES[:5]:
        templates.append((("derive", d), ("derive", d)))
    templates.append((("ctor",), ("ctor",)))
    for d in TWO_BASE:
        # thread 0: the operation on receiver A, then on receiver B; thread 1 (run while thread 0 is suspended): on B
        templates.append((("derive_ab", d), ("derive_b", d)))
    templates.append((("clear",), ("configure", 16)))
    templates.append((("configure", 2), ("clear",)))
    for d in ("with_query_bigint", "with_query_floats"):
        templates.append((("derive", d), ("ambient",)))
        templates.append((("derive", d), ("hugeport",)))
        templates.append((("derive", d), ("derive", d)))
    # deterministic partition of ALL templates over the jobs (seed % 4 = job index), so every pair is covered in every run
    njobs = 4
    mine = [t for i, t in enumerate(templates) if i % njobs == seed % njobs][:n_pairs]
    for ti, (a, b) in enumerate(mine):
        base = rnd.choice(STRS)

        def mk(op, s_):
            if op[0] == "derive":
                return [("derive", s_, op[1])]
            if op[0] == "read":
                return [("read", s_, op[1])]
            if op[0] in ("derive_ab", "derive_b"):
                other = STRS[(STRS.index(base) + 2) % len(STRS)] if base in STRS else STRS[0]
                sb = other + ("&" if "?" in other else "?") + s_[-10:]
                return [("derive", s_, op[1]), ("derive", sb, op[1])] if op[0] == "derive_ab" else [("derive", sb, op[1])]
            if op[0] == "clear":
                return [("clear",)]
            if op[0] == "configure":
                return [("configure", op[1])]
            if op[0] == "ambient":
                return [("ambient",)]
            if op[0] == "hugeport":
                return [("ctor", HUGEPORT + "?" + s_[-12:])]
            return [("ctor", s_)]
        # yield count of thread 0 alone
        s0 = base + ("&" if "?" in base else "?") + f"sys{seed}x{ti}probe"
        clear_all_lru(yarl)
        probe = Sched([0] * 100000, root)
        probe.run([lambda: run_prog(yarl, mk(a, s0), 0, "probe", []), lambda: None])
        total = probe.yields
        # at most ~150 pre-emption points per pair (a uniform sub-sample when the call has thousands of yield points)
        for k in range(0, total + 1, max(stride, total // 150 + 1)):
            s_ = base + ("&" if "?" in base else "?") + f"sys{seed}x{ti}k{k}"
            progs = [mk(a, s_), mk(b, s_)]
            events = []
            clear_all_lru(yarl)
            for t in (0, 1):                         # sequential reference on the same (fresh) string
                run_prog(yarl, progs[t], t, "seq", events)
            clear_all_lru(yarl)
            reset_caches(yarl)                       # ... and from the default cache sizes again
            per = [[], []]
            sch = Sched([0] * k + [1] * 100000, root)
            sch.run([lambda t=t: run_prog(yarl, progs[t], t, "sys1", per[t]) for t in (0, 1)])
            events += per[0] + per[1]
            events.append(sizes_event(yarl, progs))
            reset_caches(yarl)
            for i, ev in enumerate(events):
                ev["id"] = f"{be}.sys1.{seed}.{ti}.{k}.{i}"
            allev += events
            rd += 1
            if len(allev) > 6000:
                with open(f"{outdir}/thr-sys1-{seed}-{written}.json", "w") as f:
                    json.dump(allev, f, separators=(",", ":"))
                allev, written = [], written + 1
    if allev:
        with open(f"{outdir}/thr-sys1-{seed}-{written}.json", "w") as f:
            json.dump(allev, f, separators=(",", ":"))
    print(json.dumps({"executions": rd}))


MODEL_STR = {"s1": "http://u:p@bücher.example:80/a%20b/../c?x=1#f", "s2": "https://[2001:DB8::1]:8443/p/q.tar.gz?a=1&b=2"}


def model_op(yarl, op, tagq):
    """a YarlThreads program step bound to the real API"""
    k = op[0]
    if k == "ctor":
        return ("ctor", MODEL_STR[op[1]] + "&" + tagq)
    if k == "get":          # p: a pure accessor; q: one that goes through the re-bindable module-level host cache
        return ("read", MODEL_STR[op[1]] + "&" + tagq, ["path", "parts"] if op[2] == "p" else ["host", "authority"])
    if k == "quote":        # the compiled quoter's static buffer: a component whose quoted form is well above 8 KiB
        return ("bigquote", op[1], 2800, "fragment")
    if k == "clear":
        return ("clear",)
    return ("configure", 1)


class CallSched(Sched):
    """YarlThreads' interleaving granularity on the real code: a yield point at every CALL and RETURN of a function defined in
    yarl/*.py (cache lookups, computes and stores happen between them); the thread to run next is read from the schedule TLC
    generated."""

    def tracer(self, tid):
        def local(frame, event, arg):
            if event == "return":
                self.yield_point(tid)
            return local

        def noop(frame, event, arg):
            return noop

        def glob(frame, event, arg):
            fn = frame.f_code.co_filename
            if fn.startswith(self.root) and fn.endswith(".py"):
                self.yield_point(tid)
                return local
            if fn.endswith(".pyx"):
                return noop
            return None
        return glob


def model_schedules(yarl, be, root, src, outdir):
    """mode "model": behaviours of YarlThreads.tla generated by TLC (-simulate): the thread programs of the initial state are
    bound to the real API and the model's sequence of thread steps drives the baton scheduler."""
    allev, written = [], 0
    for bi, beh in enumerate(json.load(open(src))):
        tagq = f"m{bi}"
        progs = [[model_op(yarl, op, tagq) for op in p] for p in beh["progs"]]
        events = []
        clear_all_lru(yarl)
        reset_caches(yarl)
        for t in range(len(progs)):
            run_prog(yarl, [op for op in progs[t] if op[0] not in ("clear", "configure")], t, "seq", events)
        clear_all_lru(yarl)
        reset_caches(yarl)
        per = [[] for _ in progs]
        # each model step of thread t = "run t to its next call/return boundary"; repeat each a few times so that the real
        # thread (which has more boundaries than the model has steps) makes comparable progress
        choices = [t - 1 for t in beh["schedule"] for _ in range(beh.get("stretch", 3))]
        sch = CallSched(choices + [0] * 100000, root)
        sch.run([lambda t=t: run_prog(yarl, progs[t], t, "model", per[t]) for t in range(len(progs))])
        for p in per:
            events += p
        events.append({"kind": "schedule", "facts": [], "model_steps": len(beh["schedule"]), "yields": sch.yields})
        for i, ev in enumerate(events):
            ev["id"] = f"{be}.model.{bi}.{i}"
        allev += events
        if len(allev) > 5000:
            with open(f"{outdir}/thr-model-{written}.json", "w") as f:
                json.dump(allev, f, separators=(",", ":"))
            allev, written = [], written + 1
    if allev:
        with open(f"{outdir}/thr-model-{written}.json", "w") as f:
            json.dump(allev, f, separators=(",", ":"))
    reset_caches(yarl)
    print(json.dumps({"behaviours": bi + 1}))


def main():
    outdir, seed, mode, n = sys.argv[1], int(sys.argv[2]), sys.argv[3], int(sys.argv[4])
    sys.set_int_max_str_digits(640)
    if mode == "model":
        import yarl
        be = "py" if os.environ.get("YARL_NO_EXTENSIONS") else "c"
        model_schedules(yarl, be, os.path.dirname(yarl.__file__), os.environ["VERIF_MODEL_SCHEDULES"], outdir)
        return
    if mode == "sys1":
        import yarl
        be = "py" if os.environ.get("YARL_NO_EXTENSIONS") else "c"
        systematic_pairs(yarl, be, os.path.dirname(yarl.__file__), seed, n, outdir, int(os.environ.get("VERIF_SYS_STRIDE", "1")))
        reset_caches(yarl)
        return
    import yarl
    be = "py" if os.environ.get("YARL_NO_EXTENSIONS") else "c"
    root = os.path.dirname(yarl.__file__)
    allev = []
    for rd in range(n):
        rnd = random.Random(seed * 7919 + rd)
        nthreads = 8 if mode == "stress" else 2
        progs = [make_prog(rnd, chr(ord("a") + t), 40 if mode == "stress" else rnd.choice((2, 3, 4))) for t in range(nthreads)]
        # fresh objects every round: the URL strings carry the round number, so first accesses happen again
        tagq = f"r{seed}x{rd}"
        progs = [[(op[0], op[1] + ("&" if "?" in op[1] else "?") + tagq) + tuple(op[2:]) if op[0] in ("ctor", "read", "derive") else op
                  for op in p] for p in progs]
        shape = rnd.random()
        if shape < 0.35:
            # phase-shifted round: every thread runs the SAME operations rotated by its index, so one thread derives from a
            # shared object while another reads it for the first time
            base = progs[0]
            progs = [[(op[0], chr(ord("a") + t)) + tuple(op[2:]) if op[0] == "bigquote" else op
                      for op in (base[t % len(base):] + base[:t % len(base)])] for t in range(nthreads)]
        elif shape < 0.7:
            # collision-prone round: every thread runs the SAME operations (first access to the same shared, freshly derived
            # objects happens in several threads at once); only the big-quote markers stay per thread
            progs = [[(op[0], chr(ord("a") + t)) + tuple(op[2:]) if op[0] == "bigquote" else op for op in progs[0]]
                     for t in range(nthreads)]
        events = []
        # phase 0: sequential reference (fresh caches), run twice in different thread order
        clear_all_lru(yarl)
        reset_caches(yarl)
        for t in range(nthreads):
            run_prog(yarl, [op for op in progs[t] if op[0] not in ("clear", "configure")], t, "seq", events)
        clear_all_lru(yarl)
        reset_caches(yarl)
        if mode == "stress":
            # fill every module-level memo beyond any plausible capacity first, so that the concurrent phase runs the EVICTION paths
            for i in range(700):
                outcome_of(lambda: yarl.URL(f"http://w{i}.example/a/./w{i}/../b?x={i}").with_path(f"/p/./{i}/../q"))
            progs = [p + [("fresh", f"{tagq}t{t}n{j}") for j in range(30)] for t, p in enumerate(progs)]
            for p in progs:
                rnd.shuffle(p)
            old = sys.getswitchinterval()
            sys.setswitchinterval(1e-6)
            per = [[] for _ in range(nthreads)]
            start = threading.Barrier(nthreads)

            def body(t):
                start.wait()
                run_prog(yarl, progs[t], t, "conc", per[t])
            ths = [threading.Thread(target=body, args=(t,)) for t in range(nthreads)]
            for th in ths:
                th.start()
            for th in ths:
                th.join()
            sys.setswitchinterval(old)
            for p in per:
                events += p
        else:
            per = [[] for _ in range(nthreads)]
            # a bounded number of pre-emptions: long runs of one thread with a few switches
            # measure the number of yield points of this round (thread 0 to completion, then thread 1) ...
            probe = Sched([0] * 100000, root)
            probe.run([lambda t=t: run_prog(yarl, progs[t], t, "sched-probe", []) for t in range(nthreads)])
            clear_all_lru(yarl)
            reset_caches(yarl)
            total = max(2, probe.yields)
            # ... and place the pre-emptions uniformly over it
            k = rnd.choice((1, 1, 2, 2, 3))
            switch_at = set(rnd.sample(range(1, total), min(k, total - 1)))
            choices, cur = [], rnd.randrange(2)
            for i in range(total + 50):
                if i in switch_at:
                    cur = 1 - cur
                choices.append(cur)
            s = Sched(choices, root)
            s.run([lambda t=t: run_prog(yarl, progs[t], t, "sched", per[t]) for t in range(nthreads)])
            for p in per:
                events += p
            events.append({"kind": "schedule", "facts": [], "yields": s.yields, "preemptions": k})
        events.append(sizes_event(yarl, progs))
        reset_caches(yarl)
        if HOUSEKEEPING:
            events.append({"kind": "housekeeping", "facts": [], "crash": "cache_configure():" + HOUSEKEEPING[0]})
            del HOUSEKEEPING[:]
        for i, ev in enumerate(events):
            ev["id"] = f"{be}.{mode}{seed}.{rd}.{i}"
        allev += events
        if len(allev) > 4000 or rd == n - 1:
            with open(f"{outdir}/thr-{mode}-{seed}-{rd}.json", "w") as f:
                json.dump(allev, f, separators=(",", ":"))
            allev = []
    print(json.dumps({"rounds": n}))


if __name__ == "__main__":
    main()
