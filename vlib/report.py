"""Adjudication of TLC verdicts against known_findings.json, evidence files, exit status."""
from __future__ import annotations

import hashlib
import json
import os
import sys
import time
from pathlib import Path

from .core import VERIF, MachineryFailure

KNOWN_FILE = VERIF / "known_findings.json"


def load_known(prop: str):
    if not KNOWN_FILE.exists():
        return []
    data = json.loads(KNOWN_FILE.read_text())
    return [e for e in data["findings"] if e["property"] == prop and e["kind"] == "known"]


class Outcome:
    """Collects everything one run of one check found."""

    def __init__(self, prop: str, tier: str, seed: int):
        self.prop, self.tier, self.seed = prop, tier, seed
        self.t0 = time.time()
        self.known = load_known(prop)
        self.known_hits: dict[str, dict] = {}      # finding id -> {count, example}
        self.violations: list[dict] = []           # new violations (records)
        self.states = 0
        self.transitions = 0
        self.traces = 0
        self.evaluations = 0
        self.samples: list = []
        self.models: list[dict] = []               # per TLC model-checking run
        self.trace_runs: list[dict] = []
        self.notes: list[str] = []
        self.assumptions: list[str] = []
        self.clause_hits: dict[str, int] = {}
        self.agree = 0
        self.agree_total = 0
        self.drift_examples: list = []
        self._adrift_shown = 0
        self.exhaustive = False
        self.extra: dict = {}

    # -- model checking -----------------------------------------------------------------
    def add_model(self, name: str, res, expect_violation: str | None = None, what: str = ""):
        """Record a TLC model-checking run.  expect_violation: the run is a negative (non-vacuity)
        configuration that MUST produce a counterexample of that invariant."""
        self.states += res.distinct
        self.transitions += res.states
        entry = {"model": name, "distinct_states": res.distinct, "states_generated": res.states,
                 "wall_s": round(res.wall, 1), "what": what}
        if expect_violation:
            entry["negative_config"] = True
            expected = expect_violation if isinstance(expect_violation, (tuple, list, set)) else (expect_violation,)
            entry["counterexample_found"] = res.violated in expected
            entry["violated"] = res.violated
            if res.violated not in expected:
                raise MachineryFailure(f"negative configuration {name} did not produce the expected counterexample "
                                       f"of {expect_violation} (got {res.violated})")
        else:
            if res.violated:
                entry["violated"] = res.violated
                self.violations.append({"source": "model", "model": name, "invariant": res.violated,
                                        "trace": res.trace})
        self.models.append(entry)

    # -- trace validation ---------------------------------------------------------------
    def add_trace_results(self, label: str, results, records_by_id, classify=None):
        """results: list[TraceResult]; records_by_id: id -> record (for replay files/samples).
        Every verdict whose clause belongs to this property is adjudicated."""
        n = sum(r.records for r in results)
        self.traces += n
        self.evaluations += n
        run = {"label": label, "records": n, "shards": len(results),
               "tlc_wall_s": round(sum(r.wall for r in results), 1)}
        for r in results:
            st = r.stats if isinstance(r.stats, dict) else {}
            self.agree += st.get("agree", 0)
            self.agree_total += st.get("modelled", st.get("n", 0)) if "agree" in st else 0
            for k, v in st.items():
                if k not in ("n", "agree", "modelled"):
                    self.clause_hits[k] = self.clause_hits.get(k, 0) + (v if isinstance(v, int) else 0)
            for v in r.info:
                # ("ADRIFT", record id, {fields}): accessor fields of the observation that differ from Level I's AccM
                if isinstance(v, (list, tuple)) and len(v) >= 3 and v[0] == "ADRIFT":
                    for f in (v[2] if isinstance(v[2], (list, tuple, set, frozenset)) else [v[2]]):
                        self.clause_hits[f"accessor_drift.{f}"] = self.clause_hits.get(f"accessor_drift.{f}", 0) + 1
                    if os.environ.get("VERIF_SHOW_ADRIFT") and self._adrift_shown < 12:
                        self._adrift_shown += 1
                        print("ADRIFT", sorted(v[2]) if not isinstance(v[2], str) else v[2], _shorten(records_by_id.get(v[1], {}).get("call", v[1])), flush=True)
            for rid in r.drift:
                if len(self.drift_examples) < 5:
                    self.drift_examples.append(_shorten(records_by_id.get(rid, {}).get("call", rid)))
            for rid, clauses, attr in r.verdicts:
                mine = [c for c in clauses if c.startswith(self.prop + ".")]
                if not mine:
                    continue
                rec = records_by_id.get(rid, {"id": rid})
                self._adjudicate(rec, mine, attr, label)
        run["verdict_records"] = sum(len(r.verdicts) for r in results)
        self.trace_runs.append(run)
        if records_by_id and len(self.samples) < 6:
            ids = sorted(records_by_id)
            for k in (0, len(ids) // 2, len(ids) - 1):
                rec = dict(records_by_id[ids[k]])
                self.samples.append(_shorten(rec))

    def _adjudicate(self, rec, clauses, attr, label):
        unexplained = []
        for c in clauses:
            base = c.split("/")[0]
            hit = None
            for e in self.known:
                if any(base == p or base.startswith(p) for p in e["clauses"]) and \
                        any(t in attr for t in e["triggers"]):
                    hit = e
                    break
            if hit:
                h = self.known_hits.setdefault(hit["id"], {"count": 0, "example": _shorten(rec.get("call", rec)),
                                                           "what": hit["what"], "clauses": set()})
                h["count"] += 1
                h["clauses"].add(c)
            else:
                unexplained.append(c)
        if unexplained:
            self.violations.append({"source": label, "clauses": unexplained, "attribution": attr, "record": rec})

    # -- finish ---------------------------------------------------------------------------
    def finish(self, level: str = "model_checking", rule: str = "", checker_cmd: str = "") -> int:
        # seeded-change runs (tools/matrix.sh, VERIF_REPO=<scratch worktree>) may divert their output so that the
        # committed evidence of the unchanged tree is not overwritten by a mutant's run
        out_root = Path(os.environ["VERIF_OUT_DIR"]) if os.environ.get("VERIF_OUT_DIR") and os.environ.get("VERIF_REPO") else VERIF
        out_root.mkdir(parents=True, exist_ok=True)
        ev_dir = out_root / "evidence"
        ev_dir.mkdir(exist_ok=True)
        rp_dir = out_root / "replays"
        rp_dir.mkdir(exist_ok=True)
        for fid, h in sorted(self.known_hits.items()):
            print(f"KNOWN-FINDING: property={self.prop} {fid}: {h['what']} ({h['count']} records, e.g. "
                  f"{json.dumps(h['example'], ensure_ascii=True)[:200]})")
        exit_code = 0
        # group violations by clause signature so one defect does not print thousands of lines
        seen = {}
        for v in self.violations:
            tags = [a for a in (v.get("attribution") or []) if isinstance(a, str) and a.startswith("Dev_")]
            key = json.dumps([v.get("clauses"), v.get("invariant"), tags], sort_keys=True)
            seen.setdefault(key, []).append(v)
        for key, vs in seen.items():
            vs.sort(key=lambda v: len(json.dumps(v.get("record", {}))))
            v = vs[0]
            blob = json.dumps({"property": self.prop, "violation": v, "count": len(vs),
                               "more": [x.get("record", {}).get("call") for x in vs[1:6]]},
                              indent=1, ensure_ascii=True, default=list)
            h = hashlib.sha1(blob.encode()).hexdigest()[:10]
            path = rp_dir / f"{self.prop}-{h}.json"
            path.write_text(blob)
            what = v.get("clauses") or v.get("invariant")
            print(f"VIOLATION property={self.prop} replay={path}  clauses={what} count={len(vs)} "
                  f"example={json.dumps(_shorten(_example_of(v)), ensure_ascii=True)[:300]}")
            exit_code = 1
        cov = {
            "states": self.states, "transitions": self.transitions,
            "traces_validated_against_impl": self.traces,
            "samples": self.samples or [{"note": "no implementation records in this run"}],
            "exhaustive": self.exhaustive,
            "evaluations": max(self.evaluations, 1),
            "rule": rule,
            "models": self.models, "trace_runs": self.trace_runs,
            "clause_antecedent_hits": self.clause_hits,
            "model_agreement": {"agree": self.agree, "total": self.agree_total, "drift_examples": self.drift_examples},
            "known_findings_hit": {k: {"count": v["count"], "what": v["what"], "clauses": sorted(v["clauses"]),
                                       "example": v["example"]} for k, v in self.known_hits.items()},
            "checker_cmd": checker_cmd or "java -cp tla2tools.jar tlc2.TLC (TLC 2.19 / tla2tools 1.8.0), see vlib/core.py",
            "notes": self.notes,
        }
        cov.update(self.extra)
        ev = {"property_id": self.prop, "tier": self.tier, "seed": self.seed, "level": level, "coverage": cov,
              "assumptions": self.assumptions, "wall_s": round(time.time() - self.t0, 1),
              "violations": len(seen)}
        (ev_dir / f"{self.prop}{getattr(self, 'evidence_suffix', '')}.json").write_text(json.dumps(ev, indent=1, ensure_ascii=True, default=list))
        print(f"{self.prop} tier={self.tier} seed={self.seed}: states={self.states} transitions={self.transitions} "
              f"impl_records={self.traces} known_findings={len(self.known_hits)} violations={len(seen)} "
              f"wall={ev['wall_s']}s")
        return exit_code


def _example_of(v):
    rec = v.get("record", {})
    if "call" in rec:
        return rec["call"]
    if "model" in v:
        return v["model"]
    return {k: rec.get(k) for k in ("kind", "mode", "phase", "tid", "step", "seq", "id") if k in rec} | \
        {"contradicting_keys": [str(a)[:160] for a in (v.get("attribution") or [])[:2]]}


def _shorten(obj, limit=400):
    """make long code point arrays readable in samples"""
    def conv(x):
        if isinstance(x, list) and x and all(isinstance(i, int) for i in x) and len(x) > 0:
            try:
                s = "".join(chr(i) for i in x)
                s = s.encode("ascii", "backslashreplace").decode()
                return ("text:" + s) if len(s) <= limit else ("text:" + s[:limit] + f"...(+{len(s) - limit})")
            except (ValueError, OverflowError):
                return x
        if isinstance(x, list):
            return [conv(i) for i in x]
        if isinstance(x, dict):
            return {k: conv(v) for k, v in x.items()}
        return x
    return conv(obj)
