"""Observation of a yarl.URL: the full public projection, every field in ONE fixed TLA+ shape.

text          -> [code points]
optional x    -> [] | [x]
list of text  -> [[...], ...]
every accessor is wrapped: {"ok": value} | {"exc": "<ExceptionType>"}  (accessors may raise)
"""
from vlib.core import T, opt


def exc_name(e) -> str:
    """exception CLASS as the properties see it: subclasses of ValueError (UnicodeError, idna.IDNAError, ...)
    and of TypeError are reported under the documented base class, anything else under its own name"""
    if isinstance(e, ValueError):
        return "ValueError"
    if isinstance(e, TypeError):
        return "TypeError"
    return type(e).__name__


def safe(f):
    try:
        return {"ok": f()}
    except BaseException as e:  # noqa: BLE001 - the exception TYPE is the observation
        if isinstance(e, (KeyboardInterrupt, SystemExit)):
            raise
        return {"exc": exc_name(e)}


TEXT = ["scheme", "raw_authority", "authority", "raw_path", "path", "path_safe", "raw_query_string", "query_string",
        "raw_fragment", "fragment", "raw_name", "name", "raw_suffix", "suffix", "raw_path_qs", "path_qs"]
OPT_TEXT = ["raw_user", "user", "raw_password", "password", "raw_host", "host", "host_subcomponent",
            "host_port_subcomponent"]
OPT_INT = ["explicit_port", "port"]
SEQ_TEXT = ["raw_parts", "parts", "raw_suffixes", "suffixes"]
BOOL = ["absolute"]
ALL_FIELDS = (["str", "val"] + TEXT + OPT_TEXT + OPT_INT + SEQ_TEXT + BOOL +
              ["query", "is_default_port", "bool", "human_repr"])


import os as _os
import random as _random

_order_rng = _random.Random(int(_os.environ.get("VERIF_SEED", "0") or 0) * 7919 + 17)


def obs(u, fields=None):
    """Observe URL `u`.  `fields`: iterable of field names (default: all).
    The accessors are read in a (seeded) RANDOM ORDER: for correct code the order cannot matter, but a value that depends on
    which property was read first (a cache entry derived from another cache entry) only shows under some orders."""
    want = set(fields) if fields is not None else None
    o = {}
    todo = []

    def put(name, f):
        if want is None or name in want:
            todo.append((name, f))

    put("str", lambda: T(str(u)))
    put("val", lambda: [T(p) for p in u.__getstate__()[0]])
    for n in TEXT:
        put(n, lambda n=n: T(getattr(u, n)))
    for n in OPT_TEXT:
        put(n, lambda n=n: opt(getattr(u, n), T))
    for n in OPT_INT:
        put(n, lambda n=n: opt(getattr(u, n), int))
    for n in SEQ_TEXT:
        put(n, lambda n=n: [T(p) for p in getattr(u, n)])
    for n in BOOL:
        put(n, lambda n=n: bool(getattr(u, n)))
    put("query", lambda: [[T(k), T(v)] for k, v in u.query.items()])
    put("is_default_port", lambda: bool(u.is_default_port()))
    put("bool", lambda: bool(u))
    put("human_repr", lambda: T(u.human_repr()))
    _order_rng.shuffle(todo)
    for name, f in todo:
        o[name] = safe(f)
    return o


def outcome(f, fields=None):
    """Run f() -> URL; returns {"ok": obs} | {"exc": type}"""
    try:
        u = f()
    except BaseException as e:  # noqa: BLE001
        if isinstance(e, (KeyboardInterrupt, SystemExit)):
            raise
        return {"exc": exc_name(e)}, None
    return {"ok": obs(u, fields)}, u
