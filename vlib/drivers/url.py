"""URL-level driver.  A call is a *program*: a list of steps; the first step creates a URL
(ctor / build), every further step applies a public operation to the previous result.  Each step
yields one flat transition record

   {act, args, self: <Obs of the receiver> (absent for creators), other: <Obs of a URL argument>,
    out: {"ok": <Obs>} | {"exc": type}, reparse: ..., twin: ..., prog, step}

which is exactly one action of the YarlValue state machine, observed on the real code."""
import os
import sys
import copy
import pickle

from vlib.core import T, U
from vlib.obs import ALL_FIELDS as _ALL
from vlib.obs import exc_name, obs, safe
import random as _random
_half_rng = _random.Random(int(os.environ.get("VERIF_SEED", "0") or 0) * 31 + 7)

_yarl = None


def setup(params):
    global _yarl
    import yarl
    _yarl = yarl


# ------------------------------------------------------------------ typed values (query values, ports)
class _SubList(list):
    pass


class _SubTuple(tuple):
    pass


def pyval(tv):
    t = tv["t"]
    if t == "str":
        return U(tv["s"])
    if t == "int":
        return int(U(tv["s"]))
    if t == "float":
        return float(U(tv["s"]))
    if t == "bool":
        return U(tv["s"]) == "True"
    if t == "none":
        return None
    if t == "bytes":
        return U(tv["s"]).encode("latin-1")
    if t == "list":
        return (_SubList if tv.get("sub") else list)([pyval(x) for x in tv["items"]])
    if t == "tuple":
        return (_SubTuple if tv.get("sub") else tuple)(pyval(x) for x in tv["items"])
    raise ValueError(t)


def tv_str(s):
    return {"t": "str", "s": T(s)}


def tv_of(v):
    """python value -> typed value (for generators)"""
    if isinstance(v, bool):
        return {"t": "bool", "s": T(str(v))}
    if isinstance(v, int):
        return {"t": "int", "s": T(str(v))}
    if isinstance(v, float):
        return {"t": "float", "s": T(repr(v))}
    if v is None:
        return {"t": "none", "s": []}
    if isinstance(v, bytes):
        return {"t": "bytes", "s": T(v.decode("latin-1"))}
    if isinstance(v, str):
        return tv_str(v)
    if isinstance(v, list):
        return dict({"t": "list", "s": [], "items": [tv_of(x) for x in v]}, **({"sub": True} if type(v) is not list else {}))
    if isinstance(v, tuple):
        return dict({"t": "tuple", "s": [], "items": [tv_of(x) for x in v]}, **({"sub": True} if type(v) is not tuple else {}))
    raise TypeError(v)


def qarg_py(q):
    """query argument: {"form": "none"|"str"|"mapping"|"multidict"|"pairs"|"kwargs", "s": text, "pairs": [[k, tv], ...]}"""
    f = q["form"]
    if f == "none":
        return (None,), {}
    if f == "str":
        return (U(q["s"]),), {}
    pairs = [(U(k), pyval(v)) for k, v in q["pairs"]]
    if f == "mapping":
        return (dict(pairs),), {}
    if f == "multidict":
        from multidict import MultiDict
        return (MultiDict(pairs),), {}
    if f == "pairs":
        return (pairs,), {}
    if f == "tuplepairs":
        return (tuple(pairs),), {}
    if f == "kwargs":
        return (), dict(pairs)
    raise ValueError(f)


def optx(o, f=U):
    return None if not o else f(o[0])


# ------------------------------------------------------------------ steps
def _create(st):
    URL = _yarl.URL
    op = st["op"]
    if op == "ctor":
        return URL(U(st["s"]), encoded=st.get("encoded", False))
    if op == "split":                    # URL(SplitResult(...), encoded=True): a URL holding exactly these five parts
        from urllib.parse import SplitResult
        return URL(SplitResult(*[U(p) for p in st["val"]]), encoded=True)
    if op == "build":
        kw = {}
        k = st["kw"]
        for name in ("scheme", "authority", "host", "path", "query_string", "fragment"):
            if name in k:
                kw[name] = U(k[name])
        for name in ("user", "password"):
            if name in k:
                kw[name] = optx(k[name])
        if "port" in k:
            kw["port"] = pyval(k["port"])
        if "query" in k:
            a, kws = qarg_py(k["query"])
            kw["query"] = a[0] if a else kws
        if k.get("encoded"):
            kw["encoded"] = True
        return URL.build(**kw)
    raise ValueError(op)


def _apply(u, st, other):
    op = st["op"]
    if op == "with_scheme":
        return u.with_scheme(U(st["v"]))
    if op == "with_user":
        return u.with_user(optx(st["v"]))
    if op == "with_password":
        return u.with_password(optx(st["v"]))
    if op == "with_host":
        return u.with_host(U(st["v"]))
    if op == "with_port":
        return u.with_port(pyval(st["v"]))
    if op == "with_host_self":          # C16: feed the URL's own raw_host / host back into with_host
        try:
            h = getattr(u, st["which"])
        except Exception:  # noqa: BLE001 - e.g. an invalid A-label makes .host raise: outside the clause
            raise _NotApplicable()
        if not h:
            raise _NotApplicable()
        return u.with_host(h)
    if op == "with_fragment":
        return u.with_fragment(optx(st["v"]))
    if op == "with_path":
        return u.with_path(U(st["v"]), encoded=st.get("encoded", False), keep_query=st.get("keep_query", False),
                           keep_fragment=st.get("keep_fragment", False))
    if op == "with_name":
        return u.with_name(U(st["v"]), keep_query=st.get("keep_query", False),
                           keep_fragment=st.get("keep_fragment", False))
    if op == "with_suffix":
        return u.with_suffix(U(st["v"]), keep_query=st.get("keep_query", False),
                             keep_fragment=st.get("keep_fragment", False))
    if op in ("with_query", "extend_query", "update_query"):
        a, kw = qarg_py(st["q"])
        return getattr(u, op)(*a, **kw)
    if op == "mod":
        a, kw = qarg_py(st["q"])
        return u % a[0]
    if op == "without_query_params":
        return u.without_query_params(*[U(k) for k in st["keys"]])
    if op == "truediv":
        return u / U(st["v"])
    if op == "joinpath":
        objs = {}           # equal texts are ONE object, as in `d = "dir/"; u.joinpath(d, d)`
        return u.joinpath(*[objs.setdefault(tuple(v), U(v)) for v in st["vs"]], encoded=st.get("encoded", False))
    if op == "join":
        return u.join(other)
    if op == "call":                    # C19: any public method with typed arguments (documented and wrong types)
        f = getattr(u, st["name"])
        r = f(*[pyval(a) for a in st.get("a", [])], **{U(k): pyval(v) for k, v in st.get("kw", [])})
        return r if isinstance(r, _yarl.URL) else u
    if op == "parent":
        return u.parent
    if op == "origin":
        return u.origin()
    if op == "relative":
        return u.relative()
    raise ValueError(op)


CREATORS = ("ctor", "build", "split")


class _NotApplicable(Exception):
    pass


def _same(a, b):
    """argument object unchanged (type, order, values incl. NaN identity by repr)"""
    try:
        if type(a) is not type(b):
            return False
        if hasattr(a, "items"):
            return [(k, repr(v)) for k, v in a.items()] == [(k, repr(v)) for k, v in b.items()]
        return repr(a) == repr(b)
    except Exception:  # noqa: BLE001
        return False


def _reuse_after_caller_mutation(u, st, argobj):
    """The CALLER may mutate its own container between two calls: when the argument is a mapping / multidict with list values,
    the same object is first passed in an earlier state (every list one element short), then brought to its final state IN
    PLACE -- the observed call that follows must depend on what the object holds now, not on anything remembered about it."""
    if st["q"]["form"] not in ("mapping", "multidict") or not hasattr(argobj, "items"):
        return
    lists = [v for _, v in argobj.items() if isinstance(v, list) and v]
    if not lists:
        return
    last = [v.pop() for v in lists]
    try:
        (u % argobj) if st["op"] == "mod" else getattr(u, st["op"])(argobj)
    except Exception:  # noqa: BLE001 - the earlier call is only history
        pass
    for v, x in zip(lists, last):
        v.append(x)


def _resolve_self(u, st):
    """A step carrying "from_self": <accessor> takes its text argument from the RECEIVER's own accessor (u.with_fragment(
    u.raw_fragment), u / u.name, u.with_query(u.query_string), ...): the texts a caller most naturally feeds back, and the ones
    an "unchanged? return self" shortcut compares against.  Resolved to an ordinary step with the concrete text, so the record
    TLC reads has the usual shape."""
    st = dict(st)
    acc = st.pop("from_self")
    try:
        val = getattr(u, acc)
    except Exception:  # noqa: BLE001
        return st
    if type(val) is not str:
        return st
    cps = [ord(c) for c in val]
    if st["op"] in ("with_user", "with_password", "with_fragment"):
        st["v"] = [cps]
    elif st["op"] in ("with_path", "with_name", "truediv"):
        st["v"] = cps
    elif st["op"] in ("with_query", "extend_query", "update_query"):
        st["q"] = {"form": "str", "s": cps, "pairs": []}
    return st


def run_prog(prog, fields=None, extras=()):
    """Execute a program; yields one record per step.  Stops at the first step that raises."""
    u = None
    recs = []
    for i, st in enumerate(prog):
        if "from_self" in st:
            st = _resolve_self(u, st) if u is not None else {k: v for k, v in st.items() if k != "from_self"}
        rec = {"act": st["op"], "args": st, "step": i}
        other = None
        if st["op"] == "join":
            try:
                other = _create(st["ref"]) if st["ref"]["op"] in CREATORS else None
            except Exception as e:  # noqa: BLE001
                rec["other"] = {"exc": exc_name(e)}
                rec["out"] = {"exc": "n/a"}
                recs.append(rec)
                break
            rec["other"] = {"ok": obs(other, fields)}
        if u is not None:
            if "self_twin" in extras:
                # only a (seeded) random half of the accessors is read BEFORE the step, so that part of the receiver's lazily
                # filled state is still open when the operation runs; afterwards everything is read, on it and on its twin
                allf = list(fields) if fields else [f for f in _ALL if f != "val"]
                half = _half_rng.sample(allf, max(1, len(allf) // 2))
                rec["self"] = obs(u, half + ["val", "str"])
            else:
                rec["self"] = obs(u, fields)
        argobj = before = None
        if st["op"] in ("with_query", "extend_query", "update_query", "mod") and st["q"]["form"] not in ("none", "str"):
            a_, kw_ = qarg_py(st["q"])
            argobj = a_[0] if a_ else kw_
            _reuse_after_caller_mutation(u, st, argobj)
            before = copy.deepcopy(argobj)
        try:
            if argobj is not None:
                if st["op"] == "mod":
                    nu = u % argobj
                elif st["q"]["form"] == "kwargs":
                    nu = getattr(u, st["op"])(**argobj)
                else:
                    nu = getattr(u, st["op"])(argobj)
            else:
                nu = _create(st) if st["op"] in CREATORS else _apply(u, st, other)
        except BaseException as e:  # noqa: BLE001
            if isinstance(e, (KeyboardInterrupt, SystemExit)):
                raise
            rec["out"] = {"exc": "n/a" if isinstance(e, _NotApplicable) else exc_name(e)}
            if argobj is not None:
                rec["arg_unchanged"] = _same(argobj, before)
            recs.append(rec)
            break
        if argobj is not None:
            rec["arg_unchanged"] = _same(argobj, before)
        if not isinstance(nu, _yarl.URL):
            rec["out"] = {"exc": "NotURL:" + type(nu).__name__}
            recs.append(rec)
            break
        rec["out"] = {"ok": obs(nu, fields)}
        if "ok" not in rec["out"]["ok"].get("val", {"ok": 1}):
            # a returned URL that cannot even report its five parts is broken: recorded as an (undocumented) failure
            rec["out"] = {"exc": "BrokenURL:" + rec["out"]["ok"]["val"]["exc"]}
            recs.append(rec)
            break
        if "reparse" in extras:
            s = safe(lambda: str(nu))
            if "ok" in s:
                try:
                    rp = _yarl.URL(s["ok"])
                    rec["reparse"] = {"ok": obs(rp, fields)}
                except Exception as e:  # noqa: BLE001
                    rec["reparse"] = {"exc": exc_name(e)}
            else:
                rec["reparse"] = {"exc": "str:" + s["exc"]}
        if "self_twin" in extras and u is not None:
            try:
                t = pickle.loads(pickle.dumps(u))
                rec["self_after"] = obs(u, fields)
                rec["self_after_twin"] = {"ok": obs(t, fields), "eq": bool(t == u), "hash_eq": hash(t) == hash(u)}
            except Exception as e:  # noqa: BLE001
                rec["self_after_twin"] = {"exc": exc_name(e)}
        if "twin" in extras:
            tw = {}
            for name, f in (("pickle", lambda: pickle.loads(pickle.dumps(nu))),
                            ("pickle0", lambda: pickle.loads(pickle.dumps(nu, protocol=0))),
                            ("copy", lambda: copy.copy(nu)), ("deepcopy", lambda: copy.deepcopy(nu))):
                try:
                    t = f()
                    tw[name] = {"ok": obs(t, fields), "eq": bool(t == nu), "hash_eq": hash(t) == hash(nu)}
                except Exception as e:  # noqa: BLE001
                    tw[name] = {"exc": exc_name(e)}
            rec["twin"] = tw
        if "human" in extras:
            try:
                hs = nu.human_repr()
                hu = _yarl.URL(hs)
                rec["human"] = {"ok": obs(hu, ["str", "val"]), "eq": bool(hu == nu)}
            except Exception as e:  # noqa: BLE001
                rec["human"] = {"exc": exc_name(e)}
            # environment fact used by the readability clauses: which of the code points involved are printable
            cps = set()
            for v in (rec["out"]["ok"].get("human_repr", {}).get("ok") or []):
                cps.add(v)
            def _walk(x):
                if isinstance(x, list):
                    if x and all(isinstance(i, int) for i in x):
                        cps.update(x)
                    else:
                        for i in x:
                            _walk(i)
                elif isinstance(x, dict):
                    for i in x.values():
                        _walk(i)
            _walk(st)
            rec["printable"] = sorted(c for c in cps if chr(c).isprintable())
        if "self_after" in extras and u is not None:
            rec["self_after"] = obs(u, fields)
        recs.append(rec)
        u = nu
    return recs


def _quiet(prog):
    """the program, outcomes discarded (used under injected faults)"""
    try:
        u = None
        for st in prog:
            other = _create(st["ref"]) if st["op"] == "join" and st["ref"]["op"] in CREATORS else None
            u = _create(st) if st["op"] in CREATORS else _apply(u, st, other)
        str(u)
    except BaseException as e:  # noqa: BLE001 - whatever a fault turns into is not what is observed here
        if isinstance(e, (KeyboardInterrupt, SystemExit)):
            raise


def _stack_depth():
    f, n = sys._getframe(), 0
    while f:
        n, f = n + 1, f.f_back
    return n


def fault_history(prog):
    """FAILED CALLS ARE HISTORY TOO: before the program is observed it is executed (outcomes discarded) with only
    m = 1..60 stack frames left, so that a RecursionError is raised at every depth the call chain reaches.  Nothing such an
    attempt leaves behind (module caches, shared objects) may change what the observed run returns.
    (Allocation failures are injected only around the compiled quoter -- vlib/allocfault.py: _testcapi.set_nomemory over
    arbitrary Python-level code crashes this interpreter itself, with every extension module disabled.)"""
    under_recursion_faults(lambda: _quiet(prog))


def under_recursion_faults(f, frames=60):
    """f() with only m = 1..frames stack frames left; whatever it raises or returns is discarded"""
    old = sys.getrecursionlimit()
    for m in range(1, frames + 1):
        try:
            sys.setrecursionlimit(_stack_depth() + m + 1)
            f()
        except BaseException as e:  # noqa: BLE001
            if isinstance(e, (KeyboardInterrupt, SystemExit)):
                raise
        finally:
            sys.setrecursionlimit(old)


_AUTO_FAULT_EVERY = int(os.environ.get("VERIF_AUTO_FAULT_EVERY", "16") or 0)


def _auto_fault(call):
    """one program in sixteen (chosen by a checksum of the program, so replays agree) is run with a fault history first"""
    if not _AUTO_FAULT_EVERY:
        return False
    import json
    import zlib
    return zlib.crc32(json.dumps(call["prog"], sort_keys=True).encode()) % _AUTO_FAULT_EVERY == 0


def execute_all(call):
    if "faulted" in call.get("extras", ()) or _auto_fault(call):
        fault_history(call["prog"])
    recs = run_prog(call["prog"], call.get("fields"), call.get("extras", ()))
    for r in recs:
        r["tag"] = call.get("tag", "")
    return recs
