"""Alternative-spellings driver (C13): from one base URL, several operation chains whose results the path
algebra relates.  Record: {act: "alt", family, args, self: Obs, outs: [{"ok": Obs} | {"exc": type}, ...]}"""
from vlib.drivers import url as U
from vlib.obs import obs

FIELDS = ["str", "val", "raw_path", "path", "raw_parts", "parts", "raw_name", "name", "raw_suffix", "suffix", "raw_suffixes",
          "suffixes"]


def setup(params):
    U.setup(params)


def _chain(u, steps):
    for st in steps:
        u = U._apply(u, st, None)
    return u


def execute(call):
    try:
        base = U._create(call["base"])
    except Exception:  # noqa: BLE001
        return None
    rec = {"act": "alt", "family": call["family"], "args": call["args"], "self": obs(base, FIELDS), "outs": []}
    for steps in call["alts"]:
        try:
            rec["outs"].append({"ok": obs(_chain(base, steps), FIELDS)})
        except Exception as e:  # noqa: BLE001
            rec["outs"].append({"exc": type(e).__name__})
    return rec
