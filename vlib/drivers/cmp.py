"""Comparison driver (C10): pairs and triples of URLs, each made by a creator program (drivers.url)."""
from urllib.parse import SplitResult

from vlib.drivers import url as U
from vlib.obs import obs


def setup(params):
    U.setup(params)


def _make(prog):
    u = None
    for st in prog:
        u = U._create(st) if st["op"] in U.CREATORS else U._apply(u, st, None)
    return u


def _b(f):
    try:
        r = f()
    except Exception as e:  # noqa: BLE001
        return "exc:" + type(e).__name__
    return r


def execute(call):
    try:
        us = [_make(p) for p in call["progs"]]
    except Exception:  # noqa: BLE001 - creators that raise are not comparison subjects
        return None
    if len(us) == 2:
        a, b = us
        rec = {"act": "cmp", "a": obs(a, ["val", "str"]), "b": obs(b, ["val", "str"])}
        vals = {"eq": lambda: a == b, "ne": lambda: a != b, "lt": lambda: a < b, "le": lambda: a <= b, "gt": lambda: a > b,
                "ge": lambda: a >= b, "eq_rev": lambda: b == a, "lt_rev": lambda: b < a,
                "hash_eq": lambda: hash(a) == hash(b), "eq_str": lambda: a == str(a), "eq_none": lambda: a == None,  # noqa: E711
                "eq_split": lambda: a == SplitResult(*a.__getstate__()[0]), "eq_int": lambda: a == 1}
        for k, f in vals.items():
            v = _b(f)
            if not isinstance(v, bool):
                return {"act": "cmp_error", "what": str(v), "a": rec["a"], "b": rec["b"]}
            rec[k] = v
        return rec
    a, b, c = us
    rec = {"act": "cmp3", "a": obs(a, ["val"]), "b": obs(b, ["val"]), "c": obs(c, ["val"])}
    for k, f in {"eq_ab": lambda: a == b, "eq_bc": lambda: b == c, "eq_ac": lambda: a == c, "lt_ab": lambda: a < b,
                 "lt_bc": lambda: b < c, "lt_ac": lambda: a < c, "le_ab": lambda: a <= b, "le_bc": lambda: b <= c,
                 "le_ac": lambda: a <= c}.items():
        v = _b(f)
        if not isinstance(v, bool):
            return {"act": "cmp_error", "what": str(v), "a": rec["a"], "b": rec["b"]}
        rec[k] = v
    return rec
