"""Quoter-level driver: one call = (kind, configuration name, input text).  The input is pushed
through the REAL pure-Python class and the REAL compiled class built with the keyword arguments the
current yarl/_quoters.py uses for that name (recovered by introspection, not copied)."""
import itertools
import random

from vlib.core import T, U

_inst = {}


def _configs():
    """name -> kwargs, read from the source of the current yarl/_quoters.py"""
    import ast
    import inspect

    import yarl._quoters as q
    src = inspect.getsource(q)
    out = {}
    for node in ast.parse(src).body:
        if isinstance(node, ast.Assign) and isinstance(node.value, ast.Call) and \
                getattr(node.value.func, "id", "") in ("_Quoter", "_Unquoter"):
            kw = {k.arg: ast.literal_eval(k.value) for k in node.value.keywords}
            out[node.targets[0].id] = (node.value.func.id, kw)
    return out


def setup(params):
    import yarl._quoting_c as qc
    import yarl._quoting_py as qp
    for name, (cls, kw) in _configs().items():
        _inst[name] = (getattr(qp, cls)(**kw), getattr(qc, cls)(**kw), cls)


QUOTERS = ["QUOTER", "REQUOTER", "PATH_QUOTER", "PATH_REQUOTER", "QUERY_QUOTER", "QUERY_REQUOTER",
           "QUERY_PART_QUOTER", "FRAGMENT_QUOTER", "FRAGMENT_REQUOTER"]
UNQUOTERS = ["UNQUOTER", "PATH_UNQUOTER", "PATH_SAFE_UNQUOTER", "QS_UNQUOTER"]

# the alphabets of spec/MC_Quoters.tla (kept in step by the self-test in check)
CHARCORE = [0x25, 0x32, 0x35, 0x46, 0x66, 0x34, 0x31, 0x2F, 0x2B, 0x41, 0x7A, 0x20, 0xE9, 0x20AC, 0x1F600, 0xD800]
TOKENS = ["/", "?", "#", "@", ":", "[", "]", "&", "=", ";", "+", " ", ".", "%", '"', "<", ">", "\\", "^", "`", "{",
          "|", "}", "\x7f", "\x00", "a", "Z", "%2F", "%2f", "%2B", "%25", "%26", "%3D", "%3B", "%3A", "%40", "%20",
          "%41", "%7E", "%2E", "%2e", "%00", "%C3", "%A9", "%E2", "%82", "%AC", "%F0", "%9F", "%98", "%80", "%FF",
          "%C0", "%ED", "%A0", "%4", "%G1", "é", "€", "\U0001F600"]
UNICODE_REPS = [0x80, 0x7FF, 0x800, 0xFFFD, 0xFFFF, 0x10000, 0x10FFFF, 0xD800, 0xDBFF, 0xDC00, 0xDFFF]
UNQ_TOKENS = ['%2F', '%2f', '%2B', '%25', '%41', '%20', '%C3', '%A9', '%E2', '%82', '%AC', '%F0', '%9F', '%98', '%80',
              '%FF', '%C0', '%ED', '%A0', '%E0', '%F4', '%90', '%', '%4', '%G1', 'a', '+', '/', ' ', 'é', '%26', '%3d']


def _out(f, s):
    try:
        r = f(s)
    except Exception as e:  # noqa
        return {"exc": type(e).__name__}
    if not isinstance(r, str):
        return {"exc": "NotStr:" + type(r).__name__}
    return {"ok": T(r)}


class _OwnStr(str):
    """a str subclass with its OWN __str__ (as a member of `class E(str, Enum)` has): by the library's convention such an
    argument stands for str(argument) -- in both back ends"""
    __slots__ = ("alt",)

    def __str__(self):
        return self.alt


def execute(call):
    kind, name, cps = call["kind"], call["name"], call["in"]
    s = U(cps)
    if "content" in call:          # the recorded input is str(argument); the underlying text is something else
        s = _OwnStr(U(call["content"]))
        s.alt = "".join(map(chr, cps))
    py, c, cls = _inst[name]
    rec = {"kind": kind, "name": name, "in": cps, "py": _out(py, s), "c": _out(c, s)}
    for be, f in (("py", py), ("c", c)):
        o = rec[be]
        rec[be + "2"] = _out(f, U(o["ok"])) if "ok" in o and kind == "quote" and len(cps) <= 400 else {"exc": "n/a"}
    return rec


def _strings(alpha, maxlen):
    for n in range(0, maxlen + 1):
        for t in itertools.product(alpha, repeat=n):
            yield list(t)


def gen(params):
    mode = params["mode"]
    rnd = random.Random(params.get("seed", 0))
    if mode == "charcore":           # every string over CharCore up to a length x every quoter
        for cps in _strings(CHARCORE, params["maxlen"]):
            for name in QUOTERS:
                yield {"kind": "quote", "name": name, "in": cps}
    elif mode == "tokens":           # token strings x every quoter
        for toks in _strings(TOKENS, params["maxlen"]):
            cps = T("".join(toks))
            for name in QUOTERS:
                yield {"kind": "quote", "name": name, "in": cps}
    elif mode == "unq_tokens":
        for toks in _strings(UNQ_TOKENS, params["maxlen"]):
            cps = T("".join(toks))
            for name in UNQUOTERS:
                yield {"kind": "unquote", "name": name, "in": cps}
    elif mode == "ascii_sweep":      # 128 x {literal, %XX, %xx} x 4 contexts x all configurations
        for ch in range(128):
            for form in (chr(ch), "%%%02X" % ch, "%%%02x" % ch):
                for ctx in ("{}", "a{}b", "%{}", "{}%41", "{}{}", "%{}{}", "%4{}", "a{}", "{}a", "ab.-_~{}", "%{}/x", "%{}g1", "%e{}x"):
                    cps = T(ctx.format(form, form) if ctx.count("{}") == 2 else ctx.format(form))
                    for name in QUOTERS:
                        yield {"kind": "quote", "name": name, "in": cps}
                    for name in UNQUOTERS:
                        yield {"kind": "unquote", "name": name, "in": cps}
    elif mode == "width_sweep":
        # code points by storage width of the text holding them (1-, 2-, 4-byte strings) and by LOW BYTE: every Latin-1
        # character, and for each low byte b one 2-byte character of three blocks and one 4-byte character, in an otherwise
        # safe text, doubled after a literal '%', and as the second digit of an escape
        cps_ = list(range(0x80, 0x100)) + [0x100 * k + b for k in (0x01, 0x04, 0x21) for b in range(256)] + \
            [0x10000 + b for b in range(128)]
        for a in cps_:
            for ctx in ([a], [0x61, 0x62, 0x2E, 0x2D, 0x5F, 0x7E, a], [0x25, a, a], [0x25, 0x34, a],
                        # a run of the (possibly wide) character BEFORE an escape / a plus: whatever pre-scans the text must count
                        # in characters of its storage width, not in bytes
                        [a] * 6 + [0x25, 0x34, 0x31], [a] * 5 + [0x2B, 0x25, 0x32, 0x66]):
                for name in QUOTERS:
                    yield {"kind": "quote", "name": name, "in": ctx}
                for name in UNQUOTERS:
                    yield {"kind": "unquote", "name": name, "in": ctx}
    elif mode == "run_adjacency":
        # an undecodable / truncated escape run right next to a valid sequence of every UTF-8 length (and the other way round)
        bad = ["%E2%82", "%F0%9F%98", "%C3", "%FF", "%ED%A0%80", "%C0%80", "%E2", "%F0%9F", "%F4%90%80%80", "%80", "%"]
        good = ["%41", "%C3%A9", "%E2%82%AC", "%F0%9F%98%80", "%F4%8F%BF%BF", "a", "\xe9"]
        for b_ in bad:
            for g_ in good:
                for t in (b_ + g_, g_ + b_, b_ + g_ + b_, g_ + b_ + g_, b_ + b_ + g_):
                    for name in QUOTERS:
                        yield {"kind": "quote", "name": name, "in": T(t)}
                    for name in UNQUOTERS:
                        yield {"kind": "unquote", "name": name, "in": T(t)}
    elif mode == "subclass_str":
        # arguments whose str() differs from their underlying text, both in need of quoting / unquoting
        for alt, content in (("E.X", "a b"), ("x y/%2F", "plain"), ("plain", "p q%41"), ("", "nonempty"), ("%41 é", "")):
            for name in QUOTERS:
                yield {"kind": "quote", "name": name, "in": T(alt), "content": T(content)}
            for name in UNQUOTERS:
                yield {"kind": "unquote", "name": name, "in": T(alt), "content": T(content)}
    elif mode == "unicode_reps":
        for a in UNICODE_REPS:
            for ctx in ([a], [0x61, a], [a, 0x61], [0x25, a, 0x41, 0x42], [a, a], [0x25, 0x34, a]):
                for name in QUOTERS:
                    yield {"kind": "quote", "name": name, "in": ctx}
                for name in UNQUOTERS:
                    yield {"kind": "unquote", "name": name, "in": ctx}
    elif mode == "random":           # beyond the bounds: long / arbitrary code points
        pool = TOKENS + [chr(c) for c in UNICODE_REPS if not 0xD800 <= c <= 0xDFFF] + ["\ud800", "\udfff"]
        for _ in range(params["n"]):
            k = rnd.choice((1, 2, 3, 5, 8, 13, 30))
            parts = []
            for _ in range(k):
                r = rnd.random()
                if r < 0.6:
                    parts.append(rnd.choice(pool))
                elif r < 0.8:
                    parts.append(chr(rnd.randrange(0x20, 0x7F)))
                elif r < 0.9:
                    parts.append("%%%02X" % rnd.randrange(256))
                else:
                    cp = rnd.randrange(0x80, 0x110000)
                    parts.append(chr(cp))
            cps = T("".join(parts))
            if rnd.random() < 0.7:
                yield {"kind": "quote", "name": rnd.choice(QUOTERS), "in": cps}
            else:
                yield {"kind": "unquote", "name": rnd.choice(UNQUOTERS), "in": cps}
    elif mode == "boundary":         # outputs that cross the compiled writer's 8 KiB growth boundaries
        toks = [" ", "%41", "%7e", "%2f", "\u00e9", "\u20ac", "\U0001F600", "/", "+", "%", "\ud800", "%zz", "<"]
        fillers = ["a", "\u00e9", "%20", " "]
        for name in QUOTERS + UNQUOTERS:
            kind = "quote" if name in QUOTERS else "unquote"
            for fill in fillers:
                py, c, _ = _inst[name]
                unit = len(py(fill)) or 1
                for k in (1, 2, 3):
                    for delta in range(-4, 2):
                        n = (8192 * k + delta) // unit
                        if n <= 0:
                            continue
                        for tok in toks:
                            core = fill == "a" and delta in (-1, 0, 1) and (k == 1 or delta == 0)
                            if core or rnd.random() < params.get("keep", 1.0):
                                yield {"kind": kind, "name": name, "in": T(fill * n + tok + "b")}
    elif mode == "texts_file":       # texts dumped by TLC x the given configurations (expanded lazily, never materialised)
        import json as _json
        texts = _json.loads(open(params["texts_file"]).read())
        maxitems = params.get("max_len")
        for cps in texts:
            if maxitems is not None and len(cps) > maxitems:
                continue
            for name in params.get("quoters", []):
                yield {"kind": "quote", "name": name, "in": cps}
            for name in params.get("unquoters", []):
                yield {"kind": "unquote", "name": name, "in": cps}
    elif mode == "calls":
        yield from params["calls"]
    else:
        raise ValueError(mode)
