"""Core machinery shared by all checks: scratch build of /repo's working tree, child workers,
TLC drivers (model checking, trace validation), adjudication against known_findings.json,
evidence files.  Python only drives and records; every verdict is a TLA+ clause evaluated by TLC."""
from __future__ import annotations

import concurrent.futures as cf
import hashlib
import json
import os
import re
import shutil
import subprocess
import sys
import tempfile
import time
from pathlib import Path

VERIF = Path(__file__).resolve().parent.parent
REPO = Path(os.environ.get("VERIF_REPO", "/repo"))
SPEC = VERIF / "spec"
PY = "/venv/bin/python"
TLA_CP = "/opt/veriftools/tla/tla2tools.jar:/opt/veriftools/tla/CommunityModules-deps.jar"
NCPU = os.cpu_count() or 4


class MachineryFailure(Exception):
    pass


# --------------------------------------------------------------------------------- scratch build
class Scratch:
    """A private copy of /repo/yarl (current working tree) with the Cython extension rebuilt from
    the .pyx.  Lives under /var/tmp and is removed on exit."""

    def __init__(self, asan: bool = False):
        self.dir = Path(tempfile.mkdtemp(prefix="yarl-verif.", dir="/var/tmp"))
        self.asan = asan
        try:
            self._build()
        except Exception:
            self.cleanup()
            raise

    def _build(self):
        src = REPO / "yarl"
        dst = self.dir / "yarl"
        dst.mkdir()
        for f in src.iterdir():
            if f.suffix in (".py", ".pyx", ".pyi", ".typed"):
                shutil.copy2(f, dst / f.name)
        inc = subprocess.check_output(
            [PY, "-c", "import sysconfig;print(sysconfig.get_paths()['include'], sysconfig.get_config_var('EXT_SUFFIX'))"],
            text=True).split()
        pyx = dst / "_quoting_c.pyx"
        r = subprocess.run([PY, "-m", "cython", "-3", "-X", "linetrace=False", str(pyx), "-o", str(dst / "_quoting_c.c")],
                           capture_output=True, text=True)
        if r.returncode != 0:
            raise MachineryFailure("cython failed: " + r.stderr[-2000:])
        flags = ["-O1", "-g0"]
        if self.asan:
            flags = ["-O1", "-g", "-fsanitize=address", "-fno-omit-frame-pointer"]
        r = subprocess.run(["gcc", *flags, "-shared", "-fPIC", "-I", inc[0], str(dst / "_quoting_c.c"),
                            "-o", str(dst / ("_quoting_c" + inc[1]))], capture_output=True, text=True)
        if r.returncode != 0:
            raise MachineryFailure("gcc failed: " + r.stderr[-2000:])
        (self.dir / "work").mkdir()

    @property
    def work(self) -> Path:
        return self.dir / "work"

    def env(self, backend: str, extra: dict | None = None) -> dict:
        e = dict(os.environ)
        e["PYTHONPATH"] = f"{self.dir}:{VERIF}"
        e["PYTHONHASHSEED"] = "0"
        e["VERIF_SCRATCH"] = str(self.dir)
        e.pop("YARL_NO_EXTENSIONS", None)
        if backend == "py":
            e["YARL_NO_EXTENSIONS"] = "1"
        if self.asan:
            lib = subprocess.check_output(["gcc", "-print-file-name=libasan.so"], text=True).strip()
            e["LD_PRELOAD"] = lib
            e["ASAN_OPTIONS"] = "detect_leaks=0:abort_on_error=1"
        if extra:
            e.update({k: str(v) for k, v in extra.items()})
        return e

    def run_worker(self, backend: str, module: str, args: list[str], timeout: int = 3600, extra=None):
        """Run `python -m <module> args` in a child that imports yarl from the scratch copy."""
        cmd = [PY, "-X", "utf8", "-m", module, *args]
        r = subprocess.run(cmd, env=self.env(backend, extra), cwd=str(self.work), capture_output=True, text=True,
                           timeout=timeout)
        return r

    def cleanup(self):
        shutil.rmtree(self.dir, ignore_errors=True)

    def __enter__(self):
        return self

    def __exit__(self, *a):
        self.cleanup()


# --------------------------------------------------------------------------------------- text
def T(s):
    """text -> list of code points (TLA+ Seq(Nat))"""
    return [ord(ch) for ch in s]


class _StrSub(str):
    """a plain subclass of str: every documented `str` parameter must treat it exactly like the str it is"""
    __slots__ = ()


_SUBCLASS_EVERY = int(os.environ.get("VERIF_STR_SUBCLASS_EVERY", "6") or 0)


def U(cps) -> str:
    """code points -> the text handed to the library.  One text in six (chosen by a checksum of the text, so a replay makes
    the same choice) is handed over as an instance of a str SUBCLASS: the representation of an argument -- exact type, storage
    width -- must not matter, and the fast paths that test `type(x) is str` are exactly where it could."""
    s = "".join(chr(c) for c in cps)
    if _SUBCLASS_EVERY and s and (sum(cps) + len(cps)) % _SUBCLASS_EVERY == 0:
        return _StrSub(s)
    return s


def opt(x, f=lambda v: v):
    """Optional value as a 0/1-length sequence"""
    return [] if x is None else [f(x)]


# ---------------------------------------------------------------------------------------- TLC
_VERDICT = re.compile(r'^<<"VERDICT", ')
_STATE_CNT = re.compile(r"(\d+) states generated, (\d+) distinct states found")


def _java(args, env=None, timeout=None, heap="2g", gc="-XX:+UseSerialGC", props=()):
    cmd = ["java", f"-Xmx{heap}", "-Xss512m", gc, *props, "-cp", TLA_CP, "tlc2.TLC", *args]
    return subprocess.run(cmd, env=env, capture_output=True, text=True, timeout=timeout)


def parse_tla_value(s: str):
    """Parse the subset of TLC's value syntax our PrintT lines use into Python:
    <<..>> -> list, {..} -> set-as-sorted-list (tagged), "str" -> str, ints, TRUE/FALSE,
    [a |-> v, ...] -> dict."""
    pos = 0
    n = len(s)

    def ws():
        nonlocal pos
        while pos < n and s[pos] in " \n\t\r":
            pos += 1

    def val():
        nonlocal pos
        ws()
        if s.startswith("<<", pos):
            pos += 2
            out = []
            ws()
            if s.startswith(">>", pos):
                pos += 2
                return out
            while True:
                out.append(val())
                ws()
                if s.startswith(",", pos):
                    pos += 1
                    continue
                if s.startswith(">>", pos):
                    pos += 2
                    return out
                raise ValueError(f"bad tuple at {pos}: {s[pos:pos+30]!r}")
        if s[pos] == "{":
            pos += 1
            out = []
            ws()
            if s[pos] == "}":
                pos += 1
                return out
            while True:
                out.append(val())
                ws()
                if s[pos] == ",":
                    pos += 1
                    continue
                if s[pos] == "}":
                    pos += 1
                    return out
                raise ValueError(f"bad set at {pos}")
        if s[pos] == "[":
            pos += 1
            out = {}
            ws()
            if s[pos] == "]":
                pos += 1
                return out
            while True:
                ws()
                m = re.match(r"[A-Za-z_0-9]+", s[pos:])
                key = m.group(0)
                pos += len(key)
                ws()
                assert s.startswith("|->", pos), s[pos:pos + 20]
                pos += 3
                out[key] = val()
                ws()
                if s[pos] == ",":
                    pos += 1
                    continue
                if s[pos] == "]":
                    pos += 1
                    return out
                raise ValueError(f"bad record at {pos}")
        if s[pos] == "(":                      # function literal  (k :> v @@ k2 :> v2)
            pos += 1
            out = {}
            while True:
                k = val()
                ws()
                assert s.startswith(":>", pos), s[pos:pos + 20]
                pos += 2
                out[k if isinstance(k, str) else json.dumps(k)] = val()
                ws()
                if s.startswith("@@", pos):
                    pos += 2
                    continue
                if s[pos] == ")":
                    pos += 1
                    return out
                raise ValueError(f"bad function at {pos}")
        if s[pos] == '"':
            j = pos + 1
            buf = []
            while s[j] != '"':
                if s[j] == "\\":
                    j += 1
                buf.append(s[j])
                j += 1
            pos = j + 1
            return "".join(buf)
        m = re.match(r"-?\d+", s[pos:])
        if m:
            pos += len(m.group(0))
            return int(m.group(0))
        if s.startswith("TRUE", pos):
            pos += 4
            return True
        if s.startswith("FALSE", pos):
            pos += 5
            return False
        m = re.match(r"[A-Za-z_][A-Za-z_0-9]*", s[pos:])
        if m:                                  # a model value (v1, p1, ...)
            pos += len(m.group(0))
            return m.group(0)
        raise ValueError(f"cannot parse at {pos}: {s[pos:pos+40]!r}")

    v = val()
    return v


def _collect_printt(out: str):
    """Yield complete PrintT values of the form <<"TAG", ...>>.  TLC pretty-prints long values over
    several lines (`<< "TAG",` newline ...), so lines are accumulated until the brackets balance."""
    lines = out.splitlines()
    i = 0
    start = re.compile(r'^<<\s*"[A-Z]+"')
    while i < len(lines):
        ln = lines[i]
        if start.match(ln):
            buf = ln
            depth = buf.count("<<") - buf.count(">>")
            while depth > 0 and i + 1 < len(lines):
                i += 1
                buf += "\n" + lines[i]
                depth = buf.count("<<") - buf.count(">>")
            try:
                yield parse_tla_value(buf)
            except Exception:
                yield ["UNPARSED", buf]
        i += 1


def _tlc_error_text(out: str) -> str:
    """the informative part of a failed TLC run: error messages and expression positions, not the state dump"""
    keep = []
    for ln in out.splitlines():
        if ln.startswith("State ") or ln.startswith("l = ") or not ln.strip():
            continue
        if ln.startswith(("Semantic processing", "Linting of", "Parsing file")):
            continue
        keep.append(ln)
    return "\n".join(keep)[-4000:]


class TraceResult:
    def __init__(self):
        self.verdicts = []   # (record id, [clause names], [attribution])
        self.drift = []      # record ids
        self.stats = {}
        self.records = 0
        self.info = []       # other tagged lines


def validate_trace(spec: str, cfg_text: str, trace_file: Path, workdir: Path, timeout: int = 1800,
                   extra_env: dict | None = None, heap="3g") -> TraceResult:
    """Run one TLC trace validation (single worker) of `spec` over `trace_file`."""
    tag = hashlib.sha1(str(trace_file).encode()).hexdigest()[:10]
    meta = workdir / f"meta-{tag}"
    cfg = workdir / f"cfg-{tag}.cfg"
    cfg.write_text(cfg_text)
    env = dict(os.environ)
    env["TRACE_FILE"] = str(trace_file)
    if extra_env:
        env.update(extra_env)
    t0 = time.time()
    try:
        r = _java(["-workers", "1", "-metadir", str(meta), "-noGenerateSpecTE", "-config", str(cfg),
                   str(SPEC / (spec + ".tla"))], env=env, timeout=timeout, heap=heap)
    except subprocess.TimeoutExpired:
        raise MachineryFailure(f"TLC timeout on {trace_file}")
    finally:
        shutil.rmtree(meta, ignore_errors=True)
    out = r.stdout
    res = TraceResult()
    res.wall = time.time() - t0
    for v in _collect_printt(out):
        if v[0] == "VERDICT":
            res.verdicts.append((v[1], v[2], v[3] if len(v) > 3 else []))
        elif v[0] == "DRIFT":
            res.drift.append(v[1])
        elif v[0] == "STATS":
            res.stats = v[1]
        elif v[0] == "UNPARSED":
            raise MachineryFailure("cannot parse TLC output value: " + str(v[1])[:500])
        else:
            res.info.append(v)
    if out.count('"VERDICT"') != len(res.verdicts) or out.count('"DRIFT"') != len(res.drift):
        raise MachineryFailure("verdict lines lost while parsing TLC output")
    ok = "Model checking completed. No error has been found." in out
    if not ok:
        raise MachineryFailure(f"TLC did not accept trace {trace_file} (spec {spec}):\n" + _tlc_error_text(out) + r.stderr[-1000:])
    res.records = res.stats.get("n", 0) if isinstance(res.stats, dict) else 0
    return res


def validate_shards(spec: str, cfg_text: str, shards: list[Path], workdir: Path, par: int = NCPU, **kw) -> list[TraceResult]:
    with cf.ThreadPoolExecutor(max_workers=par) as ex:
        futs = [ex.submit(validate_trace, spec, cfg_text, s, workdir, **kw) for s in shards]
        return [f.result() for f in futs]


class McResult:
    def __init__(self):
        self.states = 0
        self.distinct = 0
        self.ok = False
        self.violated = None   # invariant name
        self.trace = ""        # counterexample text
        self.out = ""
        self.wall = 0.0
        self.coverage = {}


def model_check(spec: str, cfg_text: str, workdir: Path, workers: int = NCPU, timeout: int = 3600, heap="12g",
                extra_args: list[str] | None = None, simulate: str | None = None, env_extra=None) -> McResult:
    tag = hashlib.sha1((spec + cfg_text + str(extra_args) + str(simulate)).encode()).hexdigest()[:10]
    meta = workdir / f"mcmeta-{tag}"
    cfg = workdir / f"mc-{tag}.cfg"
    cfg.write_text(cfg_text)
    args = ["-workers", str(workers), "-metadir", str(meta), "-noGenerateSpecTE", "-config", str(cfg)]
    if simulate:
        args += ["-simulate", simulate]
    if extra_args:
        args += extra_args
    args.append(str(SPEC / (spec + ".tla")))
    env = dict(os.environ)
    if env_extra:
        env.update(env_extra)
    t0 = time.time()
    try:
        r = _java(args, timeout=timeout, heap=heap, gc="-XX:+UseParallelGC", env=env)
    except subprocess.TimeoutExpired:
        raise MachineryFailure(f"TLC model checking timeout: {spec}")
    finally:
        shutil.rmtree(meta, ignore_errors=True)
    res = McResult()
    res.wall = time.time() - t0
    res.out = r.stdout
    m = None
    for m in _STATE_CNT.finditer(r.stdout):
        pass
    if m:
        res.states, res.distinct = int(m.group(1)), int(m.group(2))
    res.ok = "No error has been found" in r.stdout or (simulate is not None and "Error" not in r.stdout)
    if simulate is not None:
        ms = re.search(r"The number of states generated: (\d+)", r.stdout)
        if ms:
            res.states = res.distinct = int(ms.group(1))
    mv = re.search(r"Error: Invariant (\S+) is violated", r.stdout)
    if mv:
        res.violated = mv.group(1)
    mv2 = re.search(r"Error: Action property (\S+) is violated", r.stdout)
    if mv2:
        res.violated = mv2.group(1)
    if res.violated:
        i = r.stdout.find("Error:")
        res.trace = r.stdout[i:i + 6000]
    elif not res.ok:
        raise MachineryFailure(f"TLC failed on {spec}:\n" + r.stdout[-3000:] + r.stderr[-1000:])
    return res


# ------------------------------------------------------------------------------ shards / records
def write_shards(records, workdir: Path, prefix: str, shard_size: int = 4000) -> list[Path]:
    """records: iterable of dicts (ids are assigned here, 1..N globally). Returns shard paths."""
    paths = []
    buf = []
    n = 0
    k = 0
    for rec in records:
        n += 1
        rec["id"] = n
        buf.append(rec)
        if len(buf) >= shard_size:
            p = workdir / f"{prefix}-{k:04d}.json"
            p.write_text(json.dumps(buf, separators=(",", ":")))
            paths.append(p)
            buf = []
            k += 1
    if buf:
        p = workdir / f"{prefix}-{k:04d}.json"
        p.write_text(json.dumps(buf, separators=(",", ":")))
        paths.append(p)
    return paths


def load_records(paths) -> dict:
    out = {}
    for p in paths:
        for r in json.loads(Path(p).read_text()):
            out[r["id"]] = r
    return out


# ------------------------------------------------------------------------------ driver fan-out
def run_driver(scratch: Scratch, driver: str, params: dict, label: str, backend: str = "c", nslices: int = 8,
               shard_size: int = 3000, timeout: int = 3600, extra_env=None) -> list[Path]:
    """Run vlib.worker on `nslices` slices in parallel; returns the shard files written."""
    prefix = str(scratch.work / f"rec-{label}-{backend}")
    pj = json.dumps(params)

    def one(i):
        r = scratch.run_worker(backend, "vlib.worker", [driver, prefix, str(i), str(nslices), str(shard_size), pj],
                               timeout=timeout, extra=extra_env)
        if r.returncode != 0:
            raise MachineryFailure(f"worker {driver}/{label} slice {i} failed rc={r.returncode}:\n{r.stderr[-3000:]}")
        return r

    with cf.ThreadPoolExecutor(max_workers=nslices) as ex:
        list(ex.map(one, range(nslices)))
    return sorted(scratch.work.glob(f"rec-{label}-{backend}-*.json"))


def parse_dump(path: Path, var: str = "s"):
    """values of one variable from a TLC -dump file (one `var = <<...>>` line per state)"""
    out = []
    pat = re.compile(r"^(?:/\\ )?" + re.escape(var) + r" = (.*)$")
    with open(path) as f:
        for ln in f:
            m = pat.match(ln.rstrip("\n"))
            if m:
                out.append(parse_tla_value(m.group(1)))
    return out


def parse_dump_states(path: Path):
    """All states of a TLC -dump file as dicts var -> parsed value (values may span several lines)."""
    states, cur, var, buf = [], None, None, []

    def flush():
        nonlocal var, buf
        if cur is not None and var is not None:
            cur[var] = parse_tla_value("\n".join(buf))
        var, buf = None, []
    with open(path) as f:
        for ln in f:
            ln = ln.rstrip("\n")
            if ln.startswith("State "):
                flush()
                if cur is not None:
                    states.append(cur)
                cur = {}
                continue
            m = re.match(r"^(?:/\\ )?([A-Za-z_][A-Za-z_0-9]*) = (.*)$", ln)
            if m and cur is not None and not ln.startswith(" "):
                flush()
                var, buf = m.group(1), [m.group(2)]
            elif var is not None and ln.strip():
                buf.append(ln)
    flush()
    if cur:
        states.append(cur)
    return states


def parse_simulate_dir(d: Path, var_names=("heap", "lru", "hostc", "last", "steps")):
    """Behaviours written by `tlc -simulate file=<d>/tr,...`: one TLA+ module per behaviour with STATE_n definitions.
    Returns a list of behaviours, each a list of states (dict var -> parsed value)."""
    out = []
    for f in sorted(Path(d).glob("tr_*")):
        states, cur, var, buf = [], None, None, []

        def flush():
            nonlocal var, buf
            if cur is not None and var is not None:
                cur[var] = parse_tla_value("\n".join(buf))
            var, buf = None, []
        action = ""
        for ln in f.read_text().splitlines():
            ma = re.match(r"^\\\* <([A-Za-z_0-9]+)(?:\(([^)]*)\))?", ln)
            if ma:
                action = (ma.group(1), ma.group(2) or "")
                continue
            if ln.startswith("STATE_"):
                flush()
                if cur is not None:
                    states.append(cur)
                cur = {"_action": action}
                continue
            m = re.match(r"^/\\ ([A-Za-z_][A-Za-z_0-9]*) = (.*)$", ln)
            if m and cur is not None:
                flush()
                var, buf = m.group(1), [m.group(2)]
            elif var is not None and ln.strip() and not ln.startswith(("\\*", "====", "----")):
                buf.append(ln)
        flush()
        if cur:
            states.append(cur)
        out.append(states)
    return out
