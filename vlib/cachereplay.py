"""R2 for HostCaches.tla: TLC-generated behaviours (-simulate) are executed on the real library; after EVERY call the harness
records what yarl.cache_info() says.  TraceCaches.tla re-runs the model with the observed outcomes and compares.

  python -m vlib.cachereplay <behaviours.json> <outdir>
A behaviour is a list of calls [{"call": "encode_host"|"idna_encode"|"idna_decode"|"cache_clear"|"cache_configure", ...}]."""
import json
import os
import sys

NAMES = ("encode_host", "idna_encode", "idna_decode")


def info(yarl):
    ci = yarl.cache_info()
    return {n: {"maxsize": -1 if ci[n].maxsize is None else ci[n].maxsize, "currsize": ci[n].currsize, "hits": ci[n].hits,
                "misses": ci[n].misses} for n in NAMES}


def main():
    src, outdir = sys.argv[1], sys.argv[2]
    import yarl
    from yarl import _url
    be = "py" if os.environ.get("YARL_NO_EXTENSIONS") else "c"
    behaviours = json.load(open(src))
    out, part = [], 0
    lastinfo = {n: {"maxsize": 0, "currsize": 0, "hits": 0, "misses": 0} for n in NAMES}

    def flush():
        nonlocal out, part
        if out:
            with open(f"{outdir}/cache-{be}-{part:03d}.json", "w") as f:
                json.dump(out, f, separators=(",", ":"))
            out, part = [], part + 1
    for bi, beh in enumerate(behaviours):
        if bi % 60 == 0:
            flush()            # a trace file starts at a behaviour boundary (its first event re-initialises the model)
        ev0 = {"kind": "begin", "id": f"{be}.cache.{bi}.begin"}
        try:
            yarl.cache_configure()      # the model's initial state: default sizes, empty, counters zero
            ev0["info"] = lastinfo = info(yarl)
        except Exception as e:  # noqa: BLE001
            ev0["crash"] = type(e).__name__ + ":" + str(e)[:200]
            ev0["info"] = lastinfo
        out.append(ev0)
        for si, c in enumerate(beh):
            ev = {"kind": c["call"], "id": f"{be}.cache.{bi}.{si}"}
            try:
                if c["call"] in ("encode_host", "idna_encode", "idna_decode"):
                    h = "".join(map(chr, c["h"]))
                    ev["h"] = c["h"]
                    ev["ok"] = False            # every field the trace specification reads exists whatever happens below
                    if c["call"] == "encode_host":
                        ev["flag"] = bool(c["flag"])
                    try:
                        if c["call"] == "encode_host":
                            _url._encode_host(h, validate_host=bool(c["flag"]))     # the way the library itself calls it
                        elif c["call"] == "idna_encode":
                            _url._idna_encode(h)
                        else:
                            _url._idna_decode(h)
                        ev["ok"] = True
                    except (ValueError, UnicodeError):
                        ev["ok"] = False
                elif c["call"] == "cache_clear":
                    yarl.cache_clear()
                elif c["call"] == "cache_configure":
                    ev["sizes"] = {n: c["sizes"][n] for n in NAMES}
                    sz = {n: (None if c["sizes"][n] == -1 else c["sizes"][n]) for n in NAMES}
                    yarl.cache_configure(idna_encode_size=sz["idna_encode"], idna_decode_size=sz["idna_decode"],
                                         encode_host_size=sz["encode_host"])
                    ev["sizes"] = {n: c["sizes"][n] for n in NAMES}
            except Exception as e:  # noqa: BLE001
                ev["crash"] = type(e).__name__ + ":" + str(e)[:200]
            try:
                ev["info"] = lastinfo = info(yarl)
            except Exception as e:  # noqa: BLE001 - cache_info() itself failing is an observation, not a harness error
                ev.setdefault("crash", "cache_info:" + type(e).__name__ + ":" + str(e)[:200])
                ev["info"] = lastinfo
            out.append(ev)
    try:
        yarl.cache_configure()
    except Exception:  # noqa: BLE001 - already recorded above
        pass
    flush()
    print(json.dumps({"files": part}))


if __name__ == "__main__":
    main()
