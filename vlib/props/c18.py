"""C18 -- human_repr() is readable and round-trips."""
from .common import run_model, run_progs

FINISH = dict(rule="R1 MC_Human: every text up to the stated length over 22 delimiter/escape/Unicode characters: human_quote "
                   "(Level I) -> requoter -> decoded accessor is the identity in each position and no position-sensitive "
                   "delimiter survives; R3 seeded absolute URLs built from decoded components (50 tokens incl. every "
                   "component's delimiters, '%', controls, NBSP, line separators, combining marks, NFKC-delimiter characters; "
                   "IDN/IPv4/IPv6 hosts), human_repr() re-parsed, both back ends; TLC evaluates C18.roundtrip / readable / "
                   "only_needed_escapes with the printable set supplied as environment data")


def run(out, sc, tier, seed):
    run_model(out, sc, "MC_Human", ["Inv_Userinfo", "Inv_Path", "Inv_QueryPart", "Inv_Fragment"],
              ["MaxLen = %d" % (3 if tier == "quick" else 4)], label="MC_Human")
    out.exhaustive = True
    run_progs(out, sc, "C18", {"gen": "human", "seed": seed, "n": 10000 if tier == "quick" else 80000}, "human", shard_size=2500)
    from .common import run_witnesses
    run_witnesses(out, sc, "C18")
