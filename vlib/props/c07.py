"""C07 -- parsing is the RFC 3986 decomposition of the input."""
import json

from ..core import MachineryFailure, load_records, model_check, parse_dump, run_driver, validate_shards
from ..gens.c07 import FIELDS
from .common import run_harvest, run_value_machine

FINISH = dict(rule="R1: TLC enumerates every string over the 16-character delimiter alphabet up to the stated length "
                   "and checks ImplUrl!SplitUrl/SplitNetloc/Str against Rfc3986!AppendixB/SplitAuthority; R2: every "
                   "enumerated string goes through the real constructor in both modes; R3: TLC evaluates the C07 "
                   "clauses (decompose, accessors, authsplit, recompose, mustaccept) on each recorded observation")

INVS = ["Inv_Decompose", "Inv_AuthSplit", "Inv_Port", "Inv_Recompose", "Inv_MustAccept", "Inv_NoCrash"]


def mc_cfg(maxlen, invs, overrides=()):
    return "\n".join(["INIT Init", "NEXT Next", f"CONSTANT MaxLen = {maxlen}", "CONSTANT Alphabet <- DelimAlphabet"]
                     + [f"INVARIANT {i}" for i in invs] + [f"CONSTANT {o}" for o in overrides]
                     + ["CHECK_DEADLOCK FALSE"]) + "\n"


def trace_cfg(prop):
    return f'INIT TInit\nNEXT TNext\nCONSTANT Prop = "{prop}"\nPOSTCONDITION Accepted\nCHECK_DEADLOCK FALSE\n'


def run(out, sc, tier, seed):
    work = sc.work
    mc_len, replay_len, nrand = (4, 4, 20000) if tier == "quick" else (6, 5, 120000)
    # R1
    dump = work / "dump-split"
    res = model_check("MC_Split", mc_cfg(replay_len, INVS), work, extra_args=["-dump", str(dump)])
    out.add_model(f"MC_Split[len<={replay_len}]", res, what="SplitUrl/SplitNetloc/Str refine AppendixB/SplitAuthority on "
                  "every string over the delimiter alphabet; " + ", ".join(INVS))
    if mc_len > replay_len:
        res = model_check("MC_Split", mc_cfg(mc_len, INVS), work, timeout=7200)
        out.add_model(f"MC_Split[len<={mc_len}]", res, what="same, deeper bound (not replayed)")
    neg = model_check("MC_Split", mc_cfg(4, ["Inv_NoCrash"], ["Dev_EmptyBracketIndex <- On"]), work)
    out.add_model("MC_Split[negative: Dev_EmptyBracketIndex On]", neg, expect_violation="Inv_NoCrash",
                  what="non-vacuity: with the repaired deviation switched on again TLC must find '//[]'")
    out.exhaustive = True
    # R2: replay every explored string, both constructor modes
    texts = parse_dump(str(dump) + ".dump")
    calls = [{"prog": [{"op": "ctor", "s": t, "encoded": enc}], "fields": FIELDS} for t in texts for enc in (False, True)]
    cfile = work / "calls-split.json"
    cfile.write_text(json.dumps(calls))
    shards = run_driver(sc, "url", {"calls_file": str(cfile)}, "split", nslices=14, shard_size=3000)
    # beyond the bounds
    shards += run_driver(sc, "url", {"gen": "c07", "mode": "random", "n": nrand, "seed": seed}, "rnd", nslices=8)
    shards += run_driver(sc, "url", {"gen": "c07", "mode": "grid", "n": nrand, "seed": seed,
                                     "auth_step": 11 if tier == "quick" else 1}, "grid", nslices=12)
    results = validate_shards("TraceUrl", trace_cfg("C07"), shards, work)
    recs = load_records(shards)
    if sum(r.records for r in results) != len(recs):
        raise MachineryFailure("TLC consumed a different number of records than were produced")
    out.add_trace_results("ctor", results, recs)
    run_value_machine(out, sc, "C07", tier, fields=FIELDS)
    run_harvest(out, sc, "C07")
    from .common import run_witnesses
    run_witnesses(out, sc, "C07")
