"""C06 -- decoded views are faithful and supplied values read back unchanged."""
from .common import run_progs, run_harvest, run_value_machine
from .quoterlevel import run_quoter_level, run_unquoter_steps

FINISH = dict(rule="R1 MC_Quoters Inv_C06_Decode / Inv_C06_ReadBack (unquoter model = Decode on every escape-token string); R2 "
                   "replay on the real unquoters; R3 random programs + raw escape-run URLs on both back ends, TLC evaluates "
                   "C06.<accessor> and C06.readback.<entry point>")
FIELDS = ["str", "val", "raw_user", "user", "raw_password", "password", "raw_path", "path", "path_safe", "raw_query_string",
          "query_string", "query", "raw_fragment", "fragment", "raw_parts", "parts", "raw_name", "name", "raw_suffix", "suffix",
          "raw_suffixes", "suffixes"]


def run(out, sc, tier, seed):
    run_unquoter_steps(out, sc, tier)
    run_quoter_level(out, sc, tier, seed, "C06", unq=True, bounds=({"charcore": 4} if tier == "thorough" else None))
    n = 10000 if tier == "quick" else 80000
    run_progs(out, sc, "C06", {"gen": "progs", "n": n, "seed": seed, "surrogate_p": 0.03, "fields": FIELDS,
                               "encoded_p": 0.15}, "progs")
    run_progs(out, sc, "C06", {"gen": "c06raw", "maxtok": 2 if tier == "quick" else 3, "fields": FIELDS, "seed": seed}, "raw",
              backends=("c", "py"))
    run_value_machine(out, sc, "C06", tier, fields=FIELDS)
    run_harvest(out, sc, "C06")
    from .common import run_witnesses
    run_witnesses(out, sc, "C06", fields=FIELDS)
