"""C20 -- URLs and caches are safe to share between threads."""
import concurrent.futures as cf
import subprocess

from ..core import PY, MachineryFailure, load_records, model_check, validate_shards
from .common import trace_cfg

FINISH = dict(rule="R1 YarlThreads.tla: all interleavings of 2 (thorough: 3) threads running programs of constructor / shared "
                   "property read / compiled-quoter / cache_clear / cache_configure steps, each cache lookup, compute and store a "
                   "separate step: CacheCoherent, LruCoherent, WrapperCoherent, SequentialResults, BufferExclusive, Immutable; "
                   "negative configurations QuoterMayYield and ProvisionalPublish must each yield a counterexample; R3 (a) "
                   "free-running stress: 8 OS threads, switch interval 1e-6, shared pool, quoted outputs above and below 8 KiB "
                   "tagged per thread, concurrent cache_clear/cache_configure; (b) deterministic settrace baton schedules with "
                   "0-3 pre-emptions at line granularity over two-thread programs; (c) SYSTEMATIC: for two-thread programs (derive from a shared "
                   "object x first read of its accessors, both orders; derive x derive; ctor x ctor) EVERY schedule with exactly one "
                   "pre-emption of thread 0 (at each of its yield points); each round first runs sequentially; "
                   "TraceMem.tla requires every concurrent fact to equal the sequential one and no exception in any thread; both "
                   "back ends")


def thr_cfg(threads, programs, yield_, prov, invs=("CacheCoherent", "LruCoherent", "WrapperCoherent", "SequentialResults", "LruBounded", "BufferExclusive")):
    return "\n".join(["SPECIFICATION Spec", "CONSTANTS", f"  Threads = {threads}", "  MaxSize = 1", f"  QuoterMayYield = {yield_}",
                      f"  ProvisionalPublish = {prov}", f"  Programs <- {programs}"] + [f"INVARIANT {i}" for i in invs]
                     + ["PROPERTY Immutable", "CHECK_DEADLOCK FALSE"]) + "\n"


def thread_executions(out, sc, tier, seed, prop, msrc=None, scale=1.0):
    """R3: thread executions (stress / scheduled / systematic / model schedules) validated by TraceMem under `prop`"""
    nstress, nsched = (12, 40) if tier == "quick" else (120, 1500)
    nstress, nsched = max(2, int(nstress * scale)), max(4, int(nsched * scale))
    shards = []

    def one(args):
        be, mode, k, n = args
        d = sc.work / f"thr-{prop}-{be}-{mode}-{k}"
        d.mkdir()
        env = {"VERIF_SYS_STRIDE": "3" if tier == "quick" else "1"}
        if msrc is not None:
            env["VERIF_MODEL_SCHEDULES"] = str(msrc)
        r = subprocess.run([PY, "-X", "utf8", "-m", "vlib.threadrun", str(d), str(seed * 100 + k), mode, str(n)],
                           env=sc.env(be, env), cwd=str(sc.work), capture_output=True, text=True, timeout=3600)
        if r.returncode != 0:
            raise MachineryFailure(f"threadrun failed rc={r.returncode}: {r.stderr[-2000:]}")
        return sorted(d.glob("thr-*.json"))
    npairs = 1000
    jobs = [(be, "stress", k, nstress) for be in ("c", "py") for k in range(3)] + \
           [(be, "sched", k, nsched) for be in ("c", "py") for k in range(4)] + \
           [(be, "sys1", k, npairs) for be in ("c", "py") for k in range(4)] + \
           ([(be, "model", 0, 0) for be in ("c", "py")] if msrc is not None else [])
    with cf.ThreadPoolExecutor(max_workers=12) as ex:
        for paths in ex.map(one, jobs):
            shards += paths
    results = validate_shards("TraceMem", trace_cfg(prop), shards, sc.work, heap="3g")
    recs = load_records(shards)
    if sum(r.records for r in results) != len(recs):
        raise MachineryFailure("TLC consumed a different number of events than were recorded")
    out.add_trace_results("thread-executions", results, recs)
    out.extra["executions"] = len(shards)


def run(out, sc, tier, seed):
    if tier == "quick":
        res = model_check("YarlThreads", thr_cfg("{1, 2}", "ProgramsDef", "FALSE", "FALSE"), sc.work)
        out.add_model("YarlThreads[2 threads]", res, what="all interleavings, 25 program pairs")
    else:
        res = model_check("YarlThreads", thr_cfg("{1, 2, 3}", "ProgramsQuick", "FALSE", "FALSE"), sc.work, timeout=7200)
        out.add_model("YarlThreads[3 threads]", res, what="all interleavings, 64 program triples")
        res = model_check("YarlThreads", thr_cfg("{1, 2}", "ProgramsDef", "FALSE", "FALSE"), sc.work)
        out.add_model("YarlThreads[2 threads]", res, what="all interleavings, 25 program pairs")
    res = model_check("YarlThreads", thr_cfg("{1, 2}", "ProgramsDef", "TRUE", "FALSE"), sc.work)
    out.add_model("YarlThreads[negative: QuoterMayYield]", res, expect_violation=("BufferExclusive", "SequentialResults"),
                  what="non-vacuity: if the quoter could yield while the static buffer is live TLC finds the cross-talk")
    res = model_check("YarlThreads", thr_cfg("{1, 2}", "ProgramsDef", "FALSE", "TRUE"), sc.work)
    out.add_model("YarlThreads[negative: ProvisionalPublish]", res, expect_violation=("SequentialResults",),
                  what="non-vacuity: a cache entry published before it is final is read by the other thread")
    out.exhaustive = True
    # R2: schedules GENERATED BY TLC (behaviours of YarlThreads.tla) replayed with the deterministic scheduler
    import json as _json
    import shutil
    from ..core import parse_simulate_dir
    simdir = sc.work / "simT"
    simdir.mkdir(exist_ok=True)
    nbeh = 120 if tier == "quick" else 3000
    model_check("YarlThreads", thr_cfg("{1, 2}", "ProgramsDef", "FALSE", "FALSE", invs=("SequentialResults",)), sc.work, workers=1,
                simulate=f"file={simdir}/tr,num={nbeh}", extra_args=["-depth", "40", "-seed", str(seed + 3)])
    behs = []
    for states in parse_simulate_dir(simdir):
        progs = [t["prog"] for t in states[0]["th"]]
        sched = [int(st["_action"][1]) for st in states[1:] if st["_action"][1].isdigit()]
        behs.append({"progs": progs, "schedule": sched})
    shutil.rmtree(simdir, ignore_errors=True)
    msrc = sc.work / "model-schedules.json"
    msrc.write_text(_json.dumps(behs))
    out.models.append({"model": "YarlThreads[-simulate]", "behaviours": len(behs), "what": "TLC-generated schedules, replayed on the real library"})
    thread_executions(out, sc, tier, seed, "C20", msrc)
