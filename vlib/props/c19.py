"""C19 -- failures are reported only as ValueError/TypeError; nothing crashes."""
import concurrent.futures as cf
import json
import subprocess

from ..core import PY, MachineryFailure, Scratch, T, run_driver
from .common import run_model, validate, run_harvest

FINISH = dict(rule="R1 MC_Split Inv_NoCrash (the splitter model is total; negative configuration with the repaired empty-bracket "
                   "deviation must fail) + Writer.tla (every single allocation-failure point: in bounds, no leak, no double free, "
                   "static buffer never freed; negative configuration 'free on realloc failure' must fail); R3 (i) every string "
                   "over a 13-character alphabet up to the stated length x 3 prefixes x both constructor modes with ALL accessors "
                   "observed, sampled modifiers, hostile and wrong-typed arguments through every public method, random build() "
                   "calls, both back ends: exception classes and str() totality; (ii) allocation-fault sweeps "
                   "(_testcapi.set_nomemory) of the compiled quoter for outputs across 1-3 buffer growths, one child process per "
                   "sweep (exit status observed), thorough tier additionally under AddressSanitizer")
WINVS = ["TypeOK", "Inv_InBounds", "Inv_Ownership", "Inv_NoLeakAtIdle", "Inv_NoBadFree", "Inv_ResultComplete",
         "Inv_MemoryErrorOnlyOnFault"]


def sweeps(out, sc, tier, label):
    names = ["QUOTER", "PATH_QUOTER", "QUERY_REQUOTER", "QUERY_PART_QUOTER", "FRAGMENT_REQUOTER", "REQUOTER"]
    fills = [("a", 1), ("é", 6), (" ", 3)]
    jobs = []
    for name in names if tier == "thorough" else names[:4]:
        for fill, unit in fills:
            for target in (8193, 16385, 24577) if tier == "thorough" else (8193, 16400):
                for tok in (" ", "%41", "é") if tier == "thorough" else ("é",):
                    jobs.append((name, fill, max(1, target // unit), tok))
    recs = []

    def one(i):
        name, fill, n, tok = jobs[i]
        outfile = sc.work / f"sweep-{label}-{i}.jsonl"
        r = subprocess.run([PY, "-X", "utf8", "-m", "vlib.allocfault", name, fill, str(n), tok, str(outfile)],
                           env=sc.env("c"), cwd=str(sc.work), capture_output=True, text=True, timeout=600)
        lines = [json.loads(x) for x in outfile.read_text().splitlines()] if outfile.exists() else []
        return {"act": "alloc_sweep", "id": f"sweep-{label}-{i}", "name": name, "fill": T(fill), "n": n, "tok": T(tok),
                "exit": r.returncode, "outcomes": [x["outcome"] for x in lines],
                "next_correct": [x["next_correct"] for x in lines],
                "result_correct": bool(lines and lines[-1]["result_correct"]),
                "outlen": lines[0]["outlen"] if lines else 0, "stderr_tail": T(r.stderr[-300:]),
                "call": {"name": name, "fill": T(fill), "n": n, "tok": T(tok), "asan": sc.asan}}
    with cf.ThreadPoolExecutor(max_workers=12) as ex:
        recs = list(ex.map(one, range(len(jobs))))
    p = sc.work / f"rec-sweeps-{label}.json"
    p.write_text(json.dumps(recs))
    return [p]


def boundaries(out, sc, tier):
    """the requoting and plain quoters on inputs whose output position reaches 8192*k + d (d = -4..+1) exactly where an escape,
    a space or a non-ASCII character is written, followed by a long tail: one child process per input"""
    jobs = []
    for name in ("REQUOTER", "PATH_REQUOTER", "QUERY_REQUOTER", "QUOTER"):
        for fill, unit in (("a", 1), ("\u00e9", 6)):
            for k in (1, 2) if tier == "quick" else (1, 2, 3):
                for d in range(-4, 2):
                    for tok in ("%20", "%41", " ", "\u00e9"):
                        n = (8192 * k + d) // unit
                        if n > 0:
                            jobs.append((name, fill, n, tok, 200 if tier == "quick" else 20000))

    def one(i):
        name, fill, n, tok, tail = jobs[i]
        r = subprocess.run([PY, "-X", "utf8", "-m", "vlib.boundaryrun", name, fill, str(n), tok, str(tail)], env=sc.env("c"),
                           cwd=str(sc.work), capture_output=True, text=True, timeout=600)
        same = False
        try:
            same = bool(json.loads(r.stdout.strip().splitlines()[-1])["same"])
        except Exception:  # noqa: BLE001 - no output: the child died
            pass
        return {"act": "boundary", "id": f"boundary-{i}", "name": name, "exit": r.returncode, "same": same,
                "call": {"name": name, "fill": T(fill), "n": n, "tok": T(tok), "tail": tail}}
    with cf.ThreadPoolExecutor(max_workers=14) as ex:
        recs = list(ex.map(one, range(len(jobs))))
    p = sc.work / "rec-boundaries.json"
    p.write_text(json.dumps(recs))
    return [p]


def apalache_inductive(out, sc, tier):
    """Unbounded check of the writer's invariants with Apalache (BUF = 8192 as in the code, any output length, any number of
    runs): Init => IndInv, IndInv /\\ Next => IndInv', IndInv => each invariant.  An extra key in the evidence, not a proof
    claim; a stall or tool failure is reported there and does not fail the check (the TLC-bounded result stands)."""
    import shutil
    import time
    from ..core import SPEC
    obligations = [("Init => IndInv", ["--init=Init", "--inv=IndInv", "--length=0"]),
                   ("IndInv /\\ Next => IndInv'", ["--init=IndInit", "--inv=IndInv", "--length=1"])]
    if tier == "thorough":
        obligations += [(f"IndInv => {i}", ["--init=IndInit", f"--inv={i}", "--length=0"]) for i in
                        ("Inv_InBounds", "Inv_Ownership", "Inv_NoLeakAtIdle", "Inv_NoBadFree", "Inv_ResultComplete",
                         "Inv_MemoryErrorOnlyOnFault")]
    res = []
    for name, args in obligations:
        t0 = time.time()
        try:
            r = subprocess.run(["apalache-mc", "check", *args, f"--out-dir={sc.work / 'apa'}", str(SPEC / "MC_WriterInd.tla")],
                               capture_output=True, text=True, timeout=300, cwd=str(sc.work))
            status = "discharged" if "EXITCODE: OK" in r.stdout else ("counterexample" if "EXITCODE: ERROR (12)" in r.stdout else "tool-failure")
        except (subprocess.TimeoutExpired, FileNotFoundError) as e:
            status = "stalled:" + type(e).__name__
        res.append({"obligation": name, "status": status, "wall_s": round(time.time() - t0, 1)})
        if status == "counterexample":
            out.violations.append({"source": "apalache", "model": "MC_WriterInd", "invariant": name, "trace": r.stdout[-2000:]})
    shutil.rmtree(sc.work / "apa", ignore_errors=True)
    out.extra["apalache_inductive_writer"] = {"BUF": 8192, "obligations": res,
                                             "note": "inductive invariant IndInv of spec/Writer.tla, unbounded output length and runs"}


def run(out, sc, tier, seed):
    apalache_inductive(out, sc, tier)
    run_model(out, sc, "MC_Split", ["Inv_NoCrash"], ["MaxLen = %d" % (4 if tier == "quick" else 5), "Alphabet <- DelimAlphabet"],
              label="MC_Split[no crash]")
    run_model(out, sc, "MC_Split", ["Inv_NoCrash"], ["MaxLen = 4", "Alphabet <- DelimAlphabet"], ["Dev_EmptyBracketIndex <- On"],
              label="MC_Split[negative: Dev_EmptyBracketIndex On]", expect_violation="Inv_NoCrash")
    run_model(out, sc, "Writer", WINVS, ["BUF = 3", "MaxOut = 11", "MaxRuns = 2"], label="Writer[BUF=3]")
    run_model(out, sc, "Writer", WINVS, ["BUF = 4", "MaxOut = 14", "MaxRuns = 2"], label="Writer[BUF=4]")
    run_model(out, sc, "Writer", ["Inv_NoBadFree"], ["BUF = 3", "MaxOut = 11", "MaxRuns = 1"], ["Dev_FreeOnGrowFail <- TRUE"],
              label="Writer[negative: free on realloc failure]", expect_violation="Inv_NoBadFree")
    out.exhaustive = True
    p = {"gen": "surface", "seed": seed, "maxlen": 3 if tier == "quick" else 4, "op_p": 0.3, "nbuild": 3000 if tier == "quick" else 100000}
    shards = []
    for be in ("c", "py"):
        shards += run_driver(sc, "url", p, "surface", backend=be, nslices=14, shard_size=1200)
    validate(out, sc, "TraceUrl", "C19", shards, "surface")
    sw = sweeps(out, sc, tier, "plain")
    validate(out, sc, "TraceUrl", "C19", sw, "alloc-sweeps")
    if tier == "thorough":
        with Scratch(asan=True) as asc:
            sw2 = sweeps(out, asc, tier, "asan")
            for pth in sw2:
                (sc.work / pth.name).write_text(pth.read_text())
            validate(out, sc, "TraceUrl", "C19", [sc.work / pth.name for pth in sw2], "alloc-sweeps-asan")
    validate(out, sc, "TraceUrl", "C19", boundaries(out, sc, tier), "8KiB-boundaries-child-per-input")
    run_harvest(out, sc, "C19")
    # the cache API is a public entry point too: TLC-generated sequences of cached calls, cache_clear(), cache_configure() with
    # every size class (0, small, None) and cache_info() after every call -- none may raise anything (C19.no_exception)
    from .c08 import host_caches
    host_caches(out, sc, tier, seed, prop="C19", r1=False)
    # ... and no other exception class may leak in a thread either: a reduced run of the C20 executions (free-running stress,
    # scheduled and systematic single-pre-emption schedules), every exception class observed in any step judged by TraceMem
    from .c20 import thread_executions
    thread_executions(out, sc, tier, seed, "C19", scale=0.5)
    from .common import run_witnesses
    run_witnesses(out, sc, "C19")
