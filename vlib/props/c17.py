"""C17 -- port semantics: explicit vs default, zero vs absent."""
from .common import run_model, run_progs, run_harvest, run_value_machine

FINISH = dict(rule="R1 MC_Ports: full product 7 schemes x 3 userinfo x 5 host kinds x 16 port spellings, Level I against the "
                   "Level A port table; R3 the same grid and more through constructor (both modes) / build(port=, authority=) "
                   "/ with_port (ints, bools, floats, strings, out-of-range) / with_scheme afterwards, both back ends; TLC "
                   "evaluates C17.fallback/range/strport/hostportsub/with_port")
FIELDS = ["str", "val", "explicit_port", "port", "is_default_port", "host_subcomponent", "host_port_subcomponent", "raw_host"]


def run(out, sc, tier, seed):
    run_model(out, sc, "MC_Ports", ["Inv_Fallback", "Inv_Range", "Inv_StrPort", "Inv_HostPortSub", "Inv_PortText"],
              label="MC_Ports")
    out.exhaustive = True
    run_progs(out, sc, "C17", {"gen": "ports", "seed": seed, "fields": FIELDS, "n": 4000 if tier == "quick" else 100000}, "ports")
    run_value_machine(out, sc, "C17", tier, fields=FIELDS)
    run_harvest(out, sc, "C17")
