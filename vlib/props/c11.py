"""C11 -- every modifier changes only its own component."""
from .common import run_model, run_progs, run_value_machine, run_harvest

FINISH = dict(rule="R1 MC_Ports (authority accessors of Level I); R3 random programs over the authority grid x all modifiers x "
                   "hostile arguments on both back ends; TLC evaluates C11.frame.<modifier> on (receiver, argument, result)")
FIELDS = ["str", "val", "raw_user", "raw_password", "raw_host", "host_subcomponent", "explicit_port", "raw_path",
          "raw_query_string", "raw_fragment", "user", "password", "host"]


def run(out, sc, tier, seed):
    run_model(out, sc, "MC_Ports", ["Inv_PortText"], label="MC_Ports[authority split]")
    run_value_machine(out, sc, "C11", tier, fields=FIELDS)
    n = 12000 if tier == "quick" else 100000
    run_progs(out, sc, "C11", {"gen": "progs", "n": n, "seed": seed, "surrogate_p": 0.02, "fields": FIELDS,
                               "build_p": 0.15, "depths": [1, 2, 2, 3]}, "progs")
    # the authority grid of C17 (every port SPELLING, stored canonically and verbatim) under one authority modifier each
    run_progs(out, sc, "C11", {"gen": "ports", "mode": "frame", "seed": seed, "fields": FIELDS}, "authority-grid")
    run_harvest(out, sc, "C11")
    from .common import run_witnesses
    run_witnesses(out, sc, "C11", fields=FIELDS)
