"""C13 -- path operations compose like a path algebra."""
from ..core import run_driver
from .common import run_model, validate

FINISH = dict(rule="R1 MC_Dots (segment algebra under normalisation) ; R3 31 base shapes x segment texts over the token pools x "
                   "the spellings the algebra relates (u/s, joinpath(s), (u/s).parent; joinpath(a,b), joinpath(a).joinpath(b), "
                   "u/'a/b'; with_name(n), its parent, u.parent; with_suffix(x)) on both back ends; TLC evaluates C13.div / "
                   "join2 / with_name / with_suffix and the accessor relations parts_recompose / name_is_last / suffix_is_tail")


def run(out, sc, tier, seed):
    run_model(out, sc, "MC_Dots", ["Inv_IsRfc524", "Inv_SegsForm"], ["MaxLen = 4"], label="MC_Dots")
    p = {"gen": "pathalg", "seed": seed, "n": 12000 if tier == "quick" else 100000}
    shards = []
    for be in ("c", "py"):
        shards += run_driver(sc, "alt", p, "alt", backend=be, nslices=10, shard_size=1500)
    validate(out, sc, "TraceUrl", "C13", shards, "alt")
    from .common import run_witnesses
    run_witnesses(out, sc, "C13")
