"""C16 -- hosts are stored in one canonical form and hostile hosts are rejected."""
from .common import run_model, run_progs, run_value_machine

FINISH = dict(rule="R1 MC_Host: every spelling (position of '::', leading zeros, case, IPv4 tail, zone id: 72 per address) of every "
                   "address over {0,1,0xabc}^NVary through ImplUrl!EncodeHost = the one canonical form computed by Host.tla (itself "
                   "ASSUME-checked against CPython's ipaddress on 300 spellings); R3 every ASCII character in host position, "
                   "reg-name token strings, IPv4/IPv6 spellings, all NFKC-delimiter code points x 7 authority positions, IDN hosts, "
                   "through with_host / build / constructor plus with_host(own raw_host) and with_host(own host), both back "
                   "ends; TLC evaluates C16.*")


def run(out, sc, tier, seed):
    run_model(out, sc, "MC_Host", ["Inv_Parse", "Inv_Encode", "Inv_CanonRoundTrip", "Inv_Idempotent", "Inv_LevelA", "Inv_Zone"],
              ["NVary = %d" % (6 if tier == "quick" else 8)], label="MC_Host")
    out.exhaustive = True
    run_progs(out, sc, "C16", {"gen": "hosts", "seed": seed, "maxtok": 2 if tier == "quick" else 3, "keep": 1.0 if tier == "quick" else 0.5,
                               "nv6": 300 if tier == "quick" else 20000}, "hosts", shard_size=2500)
    run_value_machine(out, sc, "C16", tier, fields=None)
    from .common import run_witnesses
    run_witnesses(out, sc, "C16")
