"""C02 -- canonicalisation never changes what a URL means."""
from .common import run_progs, run_harvest
from .quoterlevel import run_quoter_level

FINISH = dict(rule="R1 MC_Quoters Inv_C02 (skeleton equality on all enumerated texts); R2 replay on the real quoters; R3 random "
                   "programs on both back ends, TLC evaluates the C02.<entry point> clauses (SameMeaning per supplied text)")
FIELDS = ["str", "val", "raw_user", "raw_password", "raw_path", "raw_query_string", "raw_fragment", "raw_name"]


def run(out, sc, tier, seed):
    run_quoter_level(out, sc, tier, seed, "C02", bounds=({"charcore": 4} if tier == "thorough" else None))
    n = 12000 if tier == "quick" else 100000
    run_progs(out, sc, "C02", {"gen": "progs", "n": n, "seed": seed, "surrogate_p": 0.03, "fields": FIELDS, "typed": True}, "progs")
    run_harvest(out, sc, "C02")
