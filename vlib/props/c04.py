"""C04 -- already-canonical URLs are left untouched."""
from .common import run_progs
from .quoterlevel import run_quoter_level

FINISH = dict(rule="R1 MC_Quoters Inv_C04 (a canonical text is a fixed point of both requoter models); R2 replay on the real "
                   "quoters; R3 the full 128 x 6 ASCII policy sweep (literal / %XX / %xx, three contexts, every component incl. "
                   "host) and seeded whole URLs from canonical pools with near misses, both back ends; TLC decides canonicity "
                   "(CanonicalUrl) and evaluates C04.unchanged; clause_antecedent_hits counts the canonical inputs")


def run(out, sc, tier, seed):
    run_quoter_level(out, sc, tier, seed, "C04", bounds=({"charcore": 4} if tier == "thorough" else None))
    n = 15000 if tier == "quick" else 120000
    run_progs(out, sc, "C04", {"gen": "canon", "n": n, "seed": seed}, "canon", shard_size=3000)
