"""C04 -- already-canonical URLs are left untouched."""
from .common import run_progs
from .quoterlevel import run_quoter_level

FINISH = dict(rule="R1 MC_Quoters Inv_C04 (a canonical text is a fixed point of both requoter models); R2 replay on the real "
                   "quoters; R3 the full 128 x 6 ASCII policy sweep (literal / %XX / %xx, three contexts, every component incl. "
                   "host) and seeded whole URLs from canonical pools with near misses, both back ends; TLC decides canonicity "
                   "(CanonicalUrl: reg-name, IPv4 and RFC 5952 / RFC 6874 bracketed hosts) and evaluates C04.unchanged; a second pass "
                   "constructs every URL of a pool first with only 1..60 stack frames left (a RecursionError at every depth of the "
                   "call chain, outcomes discarded) and then observes it; clause_antecedent_hits counts the canonical inputs")


def run(out, sc, tier, seed):
    run_quoter_level(out, sc, tier, seed, "C04", bounds=({"charcore": 4} if tier == "thorough" else None))
    n = 15000 if tier == "quick" else 120000
    run_progs(out, sc, "C04", {"gen": "canon", "n": n, "seed": seed}, "canon", shard_size=3000)
    # failed calls are history too: the same pool, each URL first constructed under a RecursionError sweep (outcomes discarded), then observed -- nothing a failed attempt left in a cache may change the result
    nf = 1500 if tier == "quick" else 20000
    run_progs(out, sc, "C04", {"gen": "canon", "n": nf, "seed": seed + 77, "no_table": True, "extras": ["faulted"]}, "canon-after-faults",
              nslices=8, shard_size=3000)
