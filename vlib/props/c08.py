"""C08 -- URL values are immutable and results do not depend on history."""
import concurrent.futures as cf
import json
import subprocess

from ..core import PY, MachineryFailure, validate_shards, load_records
from .common import mc_cfg, run_model, trace_cfg
from ..core import model_check

FINISH = dict(rule="R1 YarlMem.tla: every interleaving of constructor-cache hits/misses with LRU eviction, modifier results, "
                   "property reads (cache hit / fill), unpickling, host-cache calls, cache_clear and cache_configure over 2 "
                   "values x 2 accessors x 1 host, up to the stated depth: Immutable, CacheCoherent, LruCoherent, HistoryFree; "
                   "three negative configurations (unpickle through the cached constructor, host cache keyed without "
                   "validate_host, wrong eager entry) must each yield a counterexample; R3 random histories over a shared pool "
                   "executed cold (all lru_caches emptied before every step, operands replaced by unpickled twins), warm "
                   "(cache sizes 1-2, shared operands, cache_clear/cache_configure interleaved) and cold again in ONE trace; "
                   "TraceMem.tla requires every call/accessor fact to be stable by value, every object's parts to be stable "
                   "by identity, arguments unchanged, and cache_info() to match the configured sizes; both back ends")
CONSTS = ["Vals = {v1, v2}", "Props = {p1, p2}", "Hosts = {h1}"]


def mem_cfg(extra, invs=("CacheCoherent", "LruCoherent", "HistoryFree", "LruBounded"), props=("Immutable",), overrides=()):
    return "\n".join(["SPECIFICATION Spec"] + [f"CONSTANT {c}" for c in CONSTS + list(extra)]
                     + [f"CONSTANT {o}" for o in overrides] + [f"INVARIANT {i}" for i in invs]
                     + [f"PROPERTY {p}" for p in props] + ["CHECK_DEADLOCK FALSE"]) + "\n"


def run(out, sc, tier, seed):
    bound = ["MaxObjs = 3", "LruSize = 1", "MaxSteps = 5"] if tier == "quick" else ["MaxObjs = 4", "LruSize = 2", "MaxSteps = 7"]
    res = model_check("YarlMem", mem_cfg(bound), sc.work, timeout=7200)
    out.add_model("YarlMem[" + ",".join(bound) + "]", res, what="Immutable (action property), CacheCoherent, LruCoherent, HistoryFree, LruBounded")
    for dev, inv in (("Dev_UnpickleThroughCache", ("LruCoherent", "Immutable")), ("Dev_HostKeyWithoutFlag", "HistoryFree"), ("Dev_EagerWrong", "CacheCoherent")):
        res = model_check("YarlMem", mem_cfg(["MaxObjs = 3", "LruSize = 1", "MaxSteps = 5"], overrides=[f"{dev} <- TrueC"]), sc.work)
        out.add_model(f"YarlMem[negative: {dev}]", res, expect_violation=inv, what="non-vacuity: the guarded-against defect must be found")
    out.exhaustive = True
    nhist, nsteps = (6, 250) if tier == "quick" else (40, 1200)
    shards = []

    def one(args):
        be, k = args
        d = sc.work / f"mem-{be}-{k}"
        d.mkdir()
        r = subprocess.run([PY, "-X", "utf8", "-m", "vlib.memrun", str(d), str(seed * 1000 + k), str(nhist), str(nsteps)],
                           env=sc.env(be), cwd=str(sc.work), capture_output=True, text=True, timeout=3600)
        if r.returncode != 0:
            raise MachineryFailure(f"memrun failed rc={r.returncode}: {r.stderr[-2000:]}")
        return sorted(d.glob("hist-*.json"))
    with cf.ThreadPoolExecutor(max_workers=8) as ex:
        for paths in ex.map(one, [(be, k) for be in ("c", "py") for k in range(4)]):
            shards += paths
    results = validate_shards("TraceMem", trace_cfg("C08"), shards, sc.work, heap="4g")
    recs = load_records(shards)
    if sum(r.records for r in results) != len(recs):
        raise MachineryFailure("TLC consumed a different number of events than were recorded")
    out.add_trace_results("histories", results, recs)
    out.extra["histories"] = len(shards)
