"""C10 -- equality, hashing and ordering are coherent."""
from ..core import run_driver
from .common import run_model, validate

FINISH = dict(rule="R1 MC_Cmp: all 230,400 (a, b, c) combinations of a 240-member near-collision family, Level I "
                   "Eq/HashKey/Lt/Le/Gt/Ge against the coherence clauses (negative configuration: trichotomy without the "
                   "deviation region must fail); R3 all pairs inside near-collision families + seeded pairs/triples, the six "
                   "operators, hash equality and comparisons with non-URLs recorded on both back ends; TLC evaluates C10.*")
INVS = ["Inv_EqHash", "Inv_EqEquivalence", "Inv_Trichotomy", "Inv_LeGe", "Inv_LtTransitive"]


def run(out, sc, tier, seed):
    run_model(out, sc, "MC_Cmp", INVS, label="MC_Cmp")
    run_model(out, sc, "MC_Cmp", ["Inv_Trichotomy_NoExclusion"], label="MC_Cmp[negative: no deviation region]",
              expect_violation="Inv_Trichotomy_NoExclusion", what="non-vacuity: TLC must find http://a vs http://a/")
    out.exhaustive = True
    p = {"gen": "cmpfam", "seed": seed, "nfam": 15 if tier == "quick" else 200, "n": 5000 if tier == "quick" else 80000,
         "n3": 5000 if tier == "quick" else 80000}
    shards = []
    for be in ("c", "py"):
        shards += run_driver(sc, "cmp", p, "cmp", backend=be, nslices=10, shard_size=3000)
    validate(out, sc, "TraceUrl", "C10", shards, "cmp")
    from .common import run_witnesses
    run_witnesses(out, sc, "C10")
