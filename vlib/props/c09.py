"""C09 -- eager and lazy component computation agree; pickling is lossless."""
from .c08 import replay_behaviours
from .common import run_model, run_progs

FINISH = dict(rule="R1 MC_Ports/MC_Split (the lazily derived authority accessors of Level I satisfy the Level A split); R3 random "
                   "programs (auto-encoding and encoded=True creators, modifier chains), every produced URL observed fresh and "
                   "on its pickle (protocols 0 and default) / copy / deepcopy twin, both back ends; TLC evaluates C09.twin.* "
                   "(37 accessors, ==, hash)")


def run(out, sc, tier, seed):
    run_model(out, sc, "MC_Ports", ["Inv_PortText", "Inv_Fallback"], label="MC_Ports[lazy accessors]")
    n = 6000 if tier == "quick" else 150000
    run_progs(out, sc, "C09", {"gen": "progs", "n": n, "seed": seed, "surrogate_p": 0.02, "extras": ["twin"],
                               "encoded_p": 0.3}, "progs", shard_size=600)
    replay_behaviours(out, sc, tier, seed, "C09")
