"""C09 -- eager and lazy component computation agree; pickling is lossless."""
from .c08 import replay_behaviours
from .common import run_model, run_progs

FINISH = dict(rule="R1 MC_Ports Inv_EagerIsLazy (Level I of encode_url's pre-filled cache entries against the lazily derived ones on the authority grid; negative configuration finds the empty-host divergence) and YarlMem -simulate behaviours replayed on the real library; R3 random "
                   "programs (auto-encoding and encoded=True creators, modifier chains), every produced URL observed fresh and "
                   "on its pickle (protocols 0 and default) / copy / deepcopy twin, both back ends; TLC evaluates C09.twin.* "
                   "(37 accessors, ==, hash)")


def run(out, sc, tier, seed):
    run_model(out, sc, "MC_Ports", ["Inv_EagerIsLazy", "Inv_PortText", "Inv_Fallback"], label="MC_Ports[eager = lazy]",
              what="what encode_url pre-fills (ImplOps!EagerCache) = what _cache_netloc derives from the stored netloc, on 2,352 "
                   "scheme x userinfo x host x port cells")
    run_model(out, sc, "MC_Ports", ["Inv_EagerIsLazy_NoExclusion"], label="MC_Ports[negative: empty host not excluded]",
              expect_violation="Inv_EagerIsLazy_NoExclusion", what="non-vacuity: the empty-host divergence (known finding) is found by TLC")
    out.exhaustive = True
    n = 6000 if tier == "quick" else 50000
    run_progs(out, sc, "C09", {"gen": "progs", "n": n, "seed": seed, "surrogate_p": 0.02, "surrogate_base_p": 0.04, "extras": ["twin", "self_twin"],
                               "encoded_p": 0.3}, "progs", shard_size=600)
    replay_behaviours(out, sc, tier, seed, "C09")
    from .common import run_witnesses
    run_witnesses(out, sc, "C09")
