"""C15 -- dot segments are removed exactly when an authority is present."""
from .common import run_model, run_progs, run_value_machine, run_harvest

FINISH = dict(rule="R1 MC_Dots: the stack machine of _path.py = the literal RFC 3986 5.2.4 buffer algorithm on every segment "
                   "sequence over 9 segment kinds up to the stated length (+ idempotence, no dot left, rooted, trailing slash); "
                   "MC_Join Inv_C15_Join; R3 dot-heavy programs through constructor/build/with_path//, joinpath, join on both "
                   "back ends; TLC evaluates C15.nodots / C15.rds.<entry> / C15.verbatim.<entry>")
FIELDS = ["str", "val", "raw_path", "path", "parts", "raw_parts"]
INVS = ["Inv_IsRfc524", "Inv_Idempotent", "Inv_NoDotLeft", "Inv_Rooted", "Inv_TrailingSlash", "Inv_SegsForm"]


def run(out, sc, tier, seed):
    run_model(out, sc, "MC_Dots", INVS, ["MaxLen = %d" % (4 if tier == "quick" else 6)], label="MC_Dots")
    run_model(out, sc, "MC_Join", ["Inv_C15_Join"], label="MC_Join[no dots after join]")
    run_value_machine(out, sc, "C15", tier, fields=FIELDS)
    out.exhaustive = True
    n = 12000 if tier == "quick" else 100000
    run_progs(out, sc, "C15", {"gen": "dots", "n": n, "seed": seed, "fields": FIELDS, "maxseg": 4 if tier == "quick" else 5},
              "dots")
    run_harvest(out, sc, "C15")
    from .common import run_witnesses
    run_witnesses(out, sc, "C15", fields=FIELDS)
