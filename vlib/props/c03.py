"""C03 -- the canonical string is a fixed point of parsing."""
from .common import run_model, run_progs, run_value_machine
from .quoterlevel import run_quoter_level

FINISH = dict(rule="R1 MC_Quoters Inv_C03 (requoters idempotent) + MC_Split Inv_Recompose (str() re-parses to the same parts); "
                   "R3 random programs with every produced URL re-parsed (URL(str(u))), both back ends; TLC evaluates "
                   "C03.fixedpoint (ValidInput => the 16 listed accessors of the re-parsed URL are identical)")
FIELDS = ["str", "val", "scheme", "raw_user", "user", "raw_password", "password", "raw_host", "host", "port", "explicit_port",
          "raw_path", "path", "raw_query_string", "query_string", "query", "raw_fragment", "fragment"]


def run(out, sc, tier, seed):
    run_quoter_level(out, sc, tier, seed, "C03", bounds=({"charcore": 4} if tier == "thorough" else None))
    run_value_machine(out, sc, "C03", tier, fields=FIELDS, extras=["reparse"])
    run_model(out, sc, "MC_Split", ["Inv_Recompose"], ["MaxLen = %d" % (4 if tier == "quick" else 5), "Alphabet <- DelimAlphabet"],
              label="MC_Split[recompose]")
    n = 10000 if tier == "quick" else 80000
    run_progs(out, sc, "C03", {"gen": "progs", "n": n, "seed": seed, "surrogate_p": 0.02, "surrogate_base_p": 0.04, "fields": FIELDS,
                               "extras": ["reparse"]}, "progs")
    from .common import run_witnesses
    run_witnesses(out, sc, "C03", fields=FIELDS)
