"""Shared building blocks for the URL-level property modules."""
from ..core import MachineryFailure, load_records, model_check, run_driver, validate_shards


def trace_cfg(prop):
    return f'INIT TInit\nNEXT TNext\nCONSTANT Prop = "{prop}"\nPOSTCONDITION Accepted\nCHECK_DEADLOCK FALSE\n'


def mc_cfg(invs, constants=(), overrides=(), props=()):
    return "\n".join(["INIT Init", "NEXT Next"] + [f"CONSTANT {c}" for c in constants]
                     + [f"CONSTANT {o}" for o in overrides] + [f"INVARIANT {i}" for i in invs]
                     + [f"PROPERTY {p}" for p in props] + ["CHECK_DEADLOCK FALSE"]) + "\n"


def run_model(out, sc, spec, invs, constants=(), overrides=(), label=None, what="", expect_violation=None, **kw):
    res = model_check(spec, mc_cfg(invs, constants, overrides), sc.work, **kw)
    out.add_model(label or spec, res, expect_violation=expect_violation, what=what or ", ".join(invs))
    return res


def validate(out, sc, spec, prop, shards, label, heap="3g"):
    results = validate_shards(spec, trace_cfg(prop), shards, sc.work, heap=heap)
    recs = load_records(shards)
    if sum(r.records for r in results) != len(recs):
        raise MachineryFailure(f"TLC consumed {sum(r.records for r in results)} records, {len(recs)} were produced")
    out.add_trace_results(label, results, recs)
    return results, recs


def run_progs(out, sc, prop, params, label, nslices=12, shard_size=1500, backends=("c", "py")):
    """Run the URL driver over generated programs under both back ends and validate with TraceUrl."""
    shards = []
    for be in backends:
        shards += run_driver(sc, "url", params, label, backend=be, nslices=nslices, shard_size=shard_size)
    return validate(out, sc, "TraceUrl", prop, shards, label)


def run_witnesses(out, sc, prop, fields=None):
    """the deterministic witness of every listed known finding of this property (vlib/witnesses.py), through the same driver and
    the same trace specification as everything else"""
    import json as _json

    from ..core import run_driver
    from ..report import load_known
    from ..witnesses import W
    by_driver = {}
    for e in load_known(prop):
        w = W.get((prop, e["id"]))
        if w is None:
            continue
        call = dict(w[1])
        if w[0] == "url" and "fields" not in call and fields:
            call["fields"] = fields
        by_driver.setdefault(w[0], []).append(call)
    for drv, calls in by_driver.items():
        shards = []
        for be in ("c", "py"):
            if drv == "quote":
                if be == "py":
                    continue          # the quote driver records both classes side by side in one process
                shards += run_driver(sc, "quote", {"mode": "calls", "calls": calls}, f"witness-{prop}", backend=be, nslices=1)
            else:
                cf_ = sc.work / f"witness-{prop}-{drv}.json"
                cf_.write_text(_json.dumps(calls))
                shards += run_driver(sc, drv, {"calls_file": str(cf_)}, f"witness-{prop}-{drv}", backend=be, nslices=1)
        validate(out, sc, "TraceQuote" if drv == "quote" else "TraceUrl", prop, shards, "known-finding-witnesses")


VALUE_INVS = {
    "C01": ["Inv_C01"], "C03": ["Inv_C03"], "C07": ["Inv_C07_Accessors", "Inv_C07_AuthSplit", "Inv_C07_Recompose"],
    "C11": ["Frame"], "C15": ["Inv_C15"], "C19": ["Inv_C19_StrTotal"], "C17": ["Inv_C17", "Inv_C07_AuthSplit"],
    "C06": ["Inv_C06"], "C13": ["Inv_C13"], "C16": ["Inv_C16"],
}


def run_value_machine(out, sc, prop, tier, fields=None, extras=()):
    """R1 + R2 on the URL value machine (spec/YarlValue.tla): TLC explores every modifier chain up to the depth, checking
    the property's Level A clauses on Level I's observations; every explored TRANSITION (receiver value, action, arguments)
    is then replayed on the real library -- the receiver rebuilt with URL(SplitResult(...), encoded=True) -- and TLC
    validates the recorded observation (Level A clauses of the property + agreement with Level I's prediction)."""
    import json as _json

    from ..core import model_check, parse_dump_states
    invs = VALUE_INVS[prop]
    depth = 1 if tier == "quick" else 2
    dump = sc.work / f"dump-value-{prop}"
    cfg = "\n".join(["SPECIFICATION Spec", f"CONSTANT MaxDepth = {depth}"] + [f"INVARIANT {i}" for i in invs] + ["CHECK_DEADLOCK FALSE"]) + "\n"
    res = model_check("YarlValue", cfg, sc.work, extra_args=["-dump", str(dump)], timeout=7200)
    out.add_model(f"YarlValue[depth<={depth}]", res, what="URL value machine: every seed x every modifier x argument texts; " + ", ".join(invs))
    states = parse_dump_states(str(dump) + ".dump")
    calls = []
    for st in states:
        last = st.get("last", {})
        if last.get("act") in (None, "seed"):
            continue
        if last["act"] == "build":          # an initial state made by URL.build: the call itself is replayed
            call = {"prog": [last["args"]], "extras": list(extras)}
        else:
            prev = last["prev"]
            five = [prev["scheme"], prev["netloc"], prev["path"], prev["query"], prev["fragment"]]
            call = {"prog": [{"op": "split", "val": five}, last["args"]], "extras": list(extras)}
        if fields:
            call["fields"] = fields
        calls.append(call)
    if len(calls) > 60000:            # thorough tier: replay a deterministic sample of the explored transitions
        calls = calls[:: len(calls) // 60000 + 1]
    cf_ = sc.work / f"calls-value-{prop}.json"
    cf_.write_text(_json.dumps(calls))
    return run_progs(out, sc, prop, {"calls_file": str(cf_)}, f"value-{prop}", nslices=10, shard_size=1500)


def run_harvest(out, sc, prop):
    """Traces of the repository's own test suite: the 1,467 tests run against the scratch copy with vlib.harvest_plugin
    loaded; every recorded public call (constructor and modifiers, receiver and result fully observed) is validated by
    TLC against the property's clauses -- not just the one assertion the test makes."""
    import json as _json
    import shutil
    import subprocess

    from ..core import PY, REPO, MachineryFailure
    tests = sc.dir / "tests"
    if not tests.exists():
        shutil.copytree(REPO / "tests", tests)
    shards = []
    for be in ("c", "py"):
        prefix = sc.work / f"harvest-{prop}-{be}"
        env = sc.env(be, {"VERIF_HARVEST_OUT": str(prefix)})
        r = subprocess.run([PY, "-X", "utf8", "-m", "pytest", "-q", "-p", "no:cacheprovider", "-p", "vlib.harvest_plugin", "-n", "0",
                            "--no-cov", "-x", "--timeout=600", "-o", "addopts=", "-W", "ignore", str(tests),
                            "--ignore", str(tests / "test_quoting_benchmarks.py"), "--ignore", str(tests / "test_url_benchmarks.py")],
                           env=env, cwd=str(sc.dir), capture_output=True, text=True, timeout=1800)
        recs = []
        for f in sorted(sc.work.glob(f"harvest-{prop}-{be}.*.jsonl")):
            for ln in f.read_text().splitlines():
                recs.append(_json.loads(ln))
        if not recs:
            raise MachineryFailure("suite harvest produced no records: " + r.stdout[-1500:] + r.stderr[-1500:])
        for k in range(0, len(recs), 1500):
            pth = sc.work / f"rec-harvest-{prop}-{be}-{k // 1500:04d}.json"
            pth.write_text(_json.dumps(recs[k:k + 1500], separators=(",", ":")))
            shards.append(pth)
    return validate(out, sc, "TraceUrl", prop, shards, "suite-harvest")


def replay(out, sc, path):
    """./check Cxx --replay <file>: re-execute the recorded call(s) of a replay file on the CURRENT tree (both back ends) and
    validate the fresh observations with TLC.  Exit status as for a check.  (History / thread / allocation records have no
    single-call replay: the whole check is re-run under the same seed.)"""
    import json as _json
    from ..core import run_driver
    data = _json.loads(open(path).read())
    prop = data["property"]
    rec = data["violation"].get("record", {})
    calls = [c for c in [rec.get("call")] + list(data.get("more") or []) if isinstance(c, dict) and not c.get("big")]
    if not calls:
        return None
    c0 = calls[0]
    if "prog" in c0:
        driver, spec = "url", "TraceUrl"
    elif "progs" in c0:
        driver, spec = "cmp", "TraceUrl"
    elif "alts" in c0:
        driver, spec = "alt", "TraceUrl"
    elif c0.get("kind") in ("quote", "unquote"):
        driver, spec = "quote", "TraceQuote"
        calls = [{"kind": c["kind"], "name": c["name"], "in": c["in"]} for c in calls]
    else:
        return None
    cf_ = sc.work / "replay-calls.json"
    cf_.write_text(_json.dumps(calls))
    shards = []
    for be in (("c",) if driver == "quote" else ("c", "py")):
        shards += run_driver(sc, driver, {"mode": "file", "calls_file": str(cf_)}, "replay", backend=be, nslices=1)
    validate(out, sc, spec, prop, shards, "replay")
    out.evidence_suffix = ".replay"      # a replay never overwrites the check's evidence file
    return out.finish(rule="replay of " + str(path))
