"""Shared building blocks for the URL-level property modules."""
from ..core import MachineryFailure, load_records, model_check, run_driver, validate_shards


def trace_cfg(prop):
    return f'INIT TInit\nNEXT TNext\nCONSTANT Prop = "{prop}"\nPOSTCONDITION Accepted\nCHECK_DEADLOCK FALSE\n'


def mc_cfg(invs, constants=(), overrides=(), props=()):
    return "\n".join(["INIT Init", "NEXT Next"] + [f"CONSTANT {c}" for c in constants]
                     + [f"CONSTANT {o}" for o in overrides] + [f"INVARIANT {i}" for i in invs]
                     + [f"PROPERTY {p}" for p in props] + ["CHECK_DEADLOCK FALSE"]) + "\n"


def run_model(out, sc, spec, invs, constants=(), overrides=(), label=None, what="", expect_violation=None, **kw):
    res = model_check(spec, mc_cfg(invs, constants, overrides), sc.work, **kw)
    out.add_model(label or spec, res, expect_violation=expect_violation, what=what or ", ".join(invs))
    return res


def validate(out, sc, spec, prop, shards, label, heap="3g"):
    results = validate_shards(spec, trace_cfg(prop), shards, sc.work, heap=heap)
    recs = load_records(shards)
    if sum(r.records for r in results) != len(recs):
        raise MachineryFailure(f"TLC consumed {sum(r.records for r in results)} records, {len(recs)} were produced")
    out.add_trace_results(label, results, recs)
    return results, recs


def run_progs(out, sc, prop, params, label, nslices=12, shard_size=1500, backends=("c", "py")):
    """Run the URL driver over generated programs under both back ends and validate with TraceUrl."""
    shards = []
    for be in backends:
        shards += run_driver(sc, "url", params, label, backend=be, nslices=nslices, shard_size=shard_size)
    return validate(out, sc, "TraceUrl", prop, shards, label)
