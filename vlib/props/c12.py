"""C12 -- query operations implement multi-dict algebra exactly."""
from .common import run_model, run_progs

FINISH = dict(rule="R1 MC_Query: every (existing query of <= 4 pairs, argument of <= 3 pairs) combination over 3 keys x 2 values, the multidict update algorithm (Level I) against "
                   "the Level A algebra; R3 random existing queries x {str, mapping, MultiDict, pairs, tuple-pairs, kwargs, None} "
                   "x hostile keys/values x typed values (ints, floats incl. 1e16/nan/inf/-inf/-0.0, bools, None, bytes, lists) "
                   "on both back ends, arguments deep-copied before and compared after; TLC evaluates C12.gate / with_query / "
                   "extend_query / update_query / without_query_params / argument_unchanged")
FIELDS = ["str", "val", "query", "raw_query_string"]


def run(out, sc, tier, seed):
    run_model(out, sc, "MC_Query", ["Inv_Update", "Inv_UpdateIntended", "Inv_Extend", "Inv_With", "Inv_Without", "Inv_UpdateIdempotent"],
              label="MC_Query")
    run_model(out, sc, "MC_Query", ["Inv_Update_NoExclusion"], label="MC_Query[negative: index shift not excluded]",
              expect_violation="Inv_Update_NoExclusion",
              what="non-vacuity: TLC finds multidict 6.2.0's drop-tails index shift (known finding) in Level I")
    out.exhaustive = True
    n = 12000 if tier == "quick" else 100000
    run_progs(out, sc, "C12", {"gen": "progs", "n": n, "seed": seed, "fields": FIELDS, "typed": True, "depths": [1, 2, 3],
                               "ops": ["with_query", "extend_query", "update_query", "without_query_params"]}, "query")
    from .common import run_witnesses
    run_witnesses(out, sc, "C12", fields=FIELDS)
