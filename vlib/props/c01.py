"""C01 -- canonical output is well-formed ASCII in every component."""
from .common import run_progs, run_value_machine, run_harvest
from .quoterlevel import run_quoter_level

FINISH = dict(rule="R1 MC_Quoters (both transducer models write only well-formed text); R2 every enumerated text through the "
                   "real quoters; R3 random programs (constructor/build/modifiers/join/query ops, texts over the token pools "
                   "incl. controls, non-BMP, lone surrogates) on both back ends, TLC evaluates C01.ascii / C01.components")
FIELDS = ["str", "val", "raw_user", "raw_password", "raw_path", "raw_query_string", "raw_fragment"]


def run(out, sc, tier, seed):
    run_quoter_level(out, sc, tier, seed, "C01", bounds=({"charcore": 4} if tier == "thorough" else None))
    run_value_machine(out, sc, "C01", tier, fields=FIELDS)
    n = 12000 if tier == "quick" else 100000
    run_progs(out, sc, "C01", {"gen": "progs", "n": n, "seed": seed, "surrogate_p": 0.1, "fields": FIELDS}, "progs")
    run_harvest(out, sc, "C01")
