"""Transducer-level part shared by C01/C02/C03/C04/C05/C06: R1 (MC_Quoters), R2 (replay of the dumped
model states on the real Python and compiled classes), R3 (TraceQuote validates every record)."""
import json

from ..core import (MachineryFailure, load_records, model_check, parse_dump, run_driver,
                    validate_shards)

INVS = {
    "C01": ["Inv_C01_Py", "Inv_C01_C"],
    "C02": ["Inv_C02"],
    "C03": ["Inv_C03"],
    "C04": ["Inv_C04"],
    "C05": ["Inv_C05"],
    "C06": ["Inv_C06_ReadBack", "Inv_C06_Decode"],
}


def mc_cfg(items: str, maxlen: int, invs, overrides=()):
    lines = ["INIT Init", "NEXT Next", f"CONSTANT MaxLen = {maxlen}", f"CONSTANT Items <- {items}"]
    lines += [f"INVARIANT {i}" for i in invs]
    lines += [f"CONSTANT {o}" for o in overrides]
    lines.append("CHECK_DEADLOCK FALSE")
    return "\n".join(lines) + "\n"


def trace_cfg(prop):
    return f'INIT TInit\nNEXT TNext\nCONSTANT Prop = "{prop}"\nPOSTCONDITION Accepted\nCHECK_DEADLOCK FALSE\n'


def run_quoter_level(out, sc, tier, seed, prop, bounds=None, unq=False):
    """bounds: dict charcore/tokens/unq maxlen per tier"""
    b = {"quick": {"charcore": 3, "tokens": 2, "unq": 2, "random": 6000},
         "thorough": {"charcore": 5, "tokens": 3, "unq": 3, "random": 200000}}[tier]
    if bounds:
        b.update(bounds)
    invs = INVS[prop]
    work = sc.work
    # ---- R1: bounded model checking of Level I against Level A, with a dump of the explored texts
    dumps = []
    for items, key, unit in (("CharCore", "charcore", 1), ("TokenCore", "tokens", 3)) + \
            ((("UnqTokens", "unq", 3),) if unq else ()):
        maxlen = b[key]
        dump = work / f"dump-{items}"
        res = model_check("MC_Quoters", mc_cfg(items, maxlen, invs), work, extra_args=["-dump", str(dump)])
        out.add_model(f"MC_Quoters[{items},items<={maxlen}]", res,
                      what=f"all texts of up to {maxlen} items over {items} x all configurations; invariants {invs}")
        dumps.append((items, str(dump) + ".dump"))
    out.exhaustive = True
    # ---- R2: every dumped text is replayed on the real classes (thorough tier: the deepest level of the largest alphabet is
    # model-checked but not replayed -- 10 M records -- the replay stops one level earlier)
    shards = []
    names_q = ["QUOTER", "REQUOTER", "PATH_QUOTER", "PATH_REQUOTER", "QUERY_QUOTER", "QUERY_REQUOTER",
               "QUERY_PART_QUOTER", "FRAGMENT_QUOTER", "FRAGMENT_REQUOTER"]
    names_u = ["UNQUOTER", "PATH_UNQUOTER", "PATH_SAFE_UNQUOTER", "QS_UNQUOTER"]
    for items, path in dumps:
        texts = parse_dump(path)
        if tier == "thorough" and items == "CharCore":
            texts = [t for t in texts if len(t) <= 4]
        tf = work / f"texts-{items}.json"
        tf.write_text(json.dumps(texts))
        params = {"mode": "texts_file", "texts_file": str(tf),
                  "quoters": names_q if items != "UnqTokens" else [], "unquoters": names_u if unq else []}
        shards += run_driver(sc, "quote", params, f"dump{items}", nslices=12, shard_size=3000 if tier == "quick" else 8000)
    # ---- beyond the bounds: sweeps and seeded random texts
    shards += run_driver(sc, "quote", {"mode": "ascii_sweep"}, "sweep", nslices=4)
    shards += run_driver(sc, "quote", {"mode": "unicode_reps"}, "ureps", nslices=1)
    shards += run_driver(sc, "quote", {"mode": "width_sweep"}, "width", nslices=4)
    shards += run_driver(sc, "quote", {"mode": "subclass_str"}, "substr", nslices=1)
    shards += run_driver(sc, "quote", {"mode": "run_adjacency"}, "runadj", nslices=2)
    shards += run_driver(sc, "quote", {"mode": "random", "n": b["random"], "seed": seed}, "random", nslices=8)
    # ---- R3: TLC validates every record against the contracts
    results = validate_shards("TraceQuote", trace_cfg(prop), shards, work)
    recs = load_records(shards)
    if sum(r.records for r in results) != len(recs):
        raise MachineryFailure("TLC consumed a different number of records than were produced")
    out.add_trace_results("quoter-level", results, recs)


UNQ_STEP_INVS = ["Inv_PyPending", "Inv_CPending", "Inv_PyProgress", "Inv_CProgress", "Inv_CUnchangedPrefix", "Inv_PyClosed",
                 "Inv_CClosed", "Inv_Same", "Inv_Decode"]


def run_unquoter_steps(out, sc, tier):
    """R1: the two unquoters as STEP machines (incremental-decoder buffer / 4-byte C array, flush-and-retry, `changed`):
    loop invariants that tie every loop head to the closed form, pending-buffer bounds, joint termination, Level A decoding"""
    from ..core import model_check

    def cfg(items, tokens, invs, overrides=()):
        return "\n".join(["SPECIFICATION Spec", f"CONSTANT MaxItems = {items}", f"CONSTANT Tokens <- {tokens}"]
                         + [f"CONSTANT {o}" for o in overrides] + [f"INVARIANT {i}" for i in invs] + ["CHECK_DEADLOCK FALSE"]) + "\n"
    items, toks = (3, "SmallTokens") if tier == "quick" else (4, "SmallTokens")
    res = model_check("UnquoterSteps", cfg(items, toks, UNQ_STEP_INVS), sc.work, timeout=7200)
    out.add_model(f"UnquoterSteps[{toks}, items<={items}]", res,
                  what="step machines of _quoting_py._Unquoter and _quoting_c._Unquoter, 4 configurations: " + ", ".join(UNQ_STEP_INVS))
    res = model_check("UnquoterSteps", cfg(3, "SmallTokens", ["Inv_PyProgress", "Inv_PyClosed"], ["FlushShort <- One"]), sc.work)
    out.add_model("UnquoterSteps[negative: flush slice one escape short]", res, expect_violation=("Inv_PyProgress", "Inv_PyClosed"),
                  what="non-vacuity: a wrong start_pct in the error branch is found by TLC")
