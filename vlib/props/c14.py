"""C14 -- join() is RFC 3986 section 5.2 reference resolution."""
from .common import run_model, run_progs

FINISH = dict(rule="R1 MC_Join: ImplUrl!Join = Rfc3986!Transform on 141k base x reference pairs (RFC 5.4 tables ASSUMEd), "
                   "negative configuration without the deviation region must fail; R3 random base/reference pairs on both "
                   "back ends, TLC computes Transform from the observed components and evaluates C14.transform / "
                   "C14.refunchanged")
FIELDS = ["str", "val"]


def run(out, sc, tier, seed):
    run_model(out, sc, "MC_Join", ["Inv_C14", "Inv_C15_Join"], label="MC_Join")
    run_model(out, sc, "MC_Join", ["Inv_C14_NoExclusion"], label="MC_Join[negative: no deviation region]",
              expect_violation="Inv_C14_NoExclusion", what="non-vacuity: Dev_JoinRootlessBase must be found by TLC")
    out.exhaustive = True
    n = 15000 if tier == "quick" else 120000
    run_progs(out, sc, "C14", {"gen": "progs", "n": n, "seed": seed, "fields": FIELDS, "ops": ["join"], "depths": [1, 1, 2],
                               "build_p": 0.1}, "join")
    # every scheme of the interpreter's urllib tables as the base's scheme (authority / rooted / rootless; auto-encoded and verbatim,
    # the latter keeping dot segments in the base) x the reference shapes of RFC 3986 5.4
    run_progs(out, sc, "C14", {"gen": "joinschemes", "fields": FIELDS}, "join-schemes", nslices=6)
    # join() concurrently on DIFFERENT bases (and the other operations that could keep scratch state between calls): a reduced run
    # of the thread executions; every concurrent result must be the sequential one (TraceMem, C14.stable)
    from .c20 import thread_executions
    thread_executions(out, sc, tier, seed, "C14", scale=0.25)
    from .common import run_witnesses
    run_witnesses(out, sc, "C14", fields=FIELDS)
