"""C05 -- pure-Python and compiled quoters are interchangeable."""
from ..core import MachineryFailure, load_records, run_driver, validate_shards
from .quoterlevel import run_quoter_level, run_unquoter_steps, trace_cfg

FINISH = dict(rule="R1: TLC enumerates all texts over CharCore/TokenCore/UnqTokens up to the stated length and checks "
                   "QuotePy = QuoteC (Level I); R2: every enumerated text is run through the real _quoting_py and "
                   "_quoting_c classes for all 9+4 configurations; R3: TLC evaluates C05.same on every record")


STEP_INVS = ["Inv_PyClosedForm", "Inv_CClosedForm", "Inv_PyIndex", "Inv_CIndex", "Inv_Interchangeable"]


def step_cfg(maxlen, alphabet, invs, overrides=()):
    return "\n".join(["SPECIFICATION Spec", f"CONSTANT MaxLen = {maxlen}", f"CONSTANT Alphabet <- {alphabet}"]
                     + [f"CONSTANT {o}" for o in overrides] + [f"INVARIANT {i}" for i in invs] + ["CHECK_DEADLOCK FALSE"]) + "\n"


def run(out, sc, tier, seed):
    # R1: the two transducers as STEP machines (byte machine with rewinds / code-point machine with look-ahead and the
    # `changed` flag), run side by side: both terminate with the closed forms and agree outside the named deviation
    from ..core import model_check
    res = model_check("QuoterSteps", step_cfg(3 if tier == "quick" else 4, "SmallCore" if tier == "quick" else "CharCore", STEP_INVS), sc.work, timeout=7200)
    out.add_model("QuoterSteps", res, what="step machines of _quoting_py and _quoting_c for all 9 configurations: " + ", ".join(STEP_INVS))
    res = model_check("QuoterSteps", step_cfg(3, "SmallCore", ["Inv_PyClosedForm"], ["RewindBad <- One"]), sc.work)
    out.add_model("QuoterSteps[negative: rewind 1 instead of 2]", res, expect_violation="Inv_PyClosedForm",
                  what="non-vacuity: an off-by-one in the malformed-escape rewind is found by TLC")
    run_unquoter_steps(out, sc, tier)
    run_quoter_level(out, sc, tier, seed, "C05", unq=True)
    # outputs crossing the compiled writer's 8 KiB growth boundaries (static buffer -> malloc -> realloc)
    keep = 0.02 if tier == "quick" else 1.0
    shards = run_driver(sc, "quote", {"mode": "boundary", "seed": seed, "keep": keep}, "boundary", nslices=12,
                        shard_size=60)
    results = validate_shards("TraceQuote", trace_cfg("C05"), shards, sc.work, heap="4g")
    recs = load_records(shards)
    if sum(r.records for r in results) != len(recs):
        raise MachineryFailure("TLC consumed a different number of records than were produced")
    out.add_trace_results("8KiB-boundaries", results, recs)
    from .common import run_witnesses
    run_witnesses(out, sc, "C05")
