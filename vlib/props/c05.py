"""C05 -- pure-Python and compiled quoters are interchangeable."""
from ..core import MachineryFailure, load_records, run_driver, validate_shards
from .quoterlevel import run_quoter_level, trace_cfg

FINISH = dict(rule="R1: TLC enumerates all texts over CharCore/TokenCore/UnqTokens up to the stated length and checks "
                   "QuotePy = QuoteC (Level I); R2: every enumerated text is run through the real _quoting_py and "
                   "_quoting_c classes for all 9+4 configurations; R3: TLC evaluates C05.same on every record")


def run(out, sc, tier, seed):
    run_quoter_level(out, sc, tier, seed, "C05", unq=True)
    # outputs crossing the compiled writer's 8 KiB growth boundaries (static buffer -> malloc -> realloc)
    keep = 0.02 if tier == "quick" else 1.0
    shards = run_driver(sc, "quote", {"mode": "boundary", "seed": seed, "keep": keep}, "boundary", nslices=12,
                        shard_size=60)
    results = validate_shards("TraceQuote", trace_cfg("C05"), shards, sc.work, heap="4g")
    recs = load_records(shards)
    if sum(r.records for r in results) != len(recs):
        raise MachineryFailure("TLC consumed a different number of records than were produced")
    out.add_trace_results("8KiB-boundaries", results, recs)
