"""C05 -- pure-Python and compiled quoters are interchangeable."""
from ..core import MachineryFailure, load_records, run_driver, validate_shards
from .quoterlevel import run_quoter_level, run_unquoter_steps, trace_cfg

FINISH = dict(rule="R1: TLC enumerates all texts over CharCore/TokenCore/UnqTokens up to the stated length and checks "
                   "QuotePy = QuoteC (Level I); R2: every enumerated text is run through the real _quoting_py and "
                   "_quoting_c classes for all 9+4 configurations; R3: TLC evaluates C05.same on every record")


STEP_INVS = ["Inv_PyClosedForm", "Inv_CClosedForm", "Inv_PyIndex", "Inv_CIndex", "Inv_Interchangeable"]


def step_cfg(maxlen, alphabet, invs, overrides=()):
    return "\n".join(["SPECIFICATION Spec", f"CONSTANT MaxLen = {maxlen}", f"CONSTANT Alphabet <- {alphabet}"]
                     + [f"CONSTANT {o}" for o in overrides] + [f"INVARIANT {i}" for i in invs] + ["CHECK_DEADLOCK FALSE"]) + "\n"


def url_differential(out, sc, tier, seed):
    """C05 at URL level: the same generated programs under both back ends, records paired by position (same generator, same seed,
    same slices), TLC requires every recorded part to be identical (TraceUrl C05.same_url)."""
    import json
    from .common import validate
    params = {"gen": "progs", "n": 5000 if tier == "quick" else 60000, "seed": seed, "typed": True, "encoded_p": 0.25,
              "depths": [1, 2, 3]}
    files = {}
    for be in ("c", "py"):
        files[be] = run_driver(sc, "url", params, "diff", backend=be, nslices=8, shard_size=10 ** 9)
    if [f.name.replace("-c-", "-") for f in files["c"]] != [f.name.replace("-py-", "-") for f in files["py"]]:
        raise MachineryFailure("the two back ends produced different shard sets")
    shards = []
    for k, (fc, fp) in enumerate(zip(files["c"], files["py"])):
        rc, rp = json.loads(fc.read_text()), json.loads(fp.read_text())
        paired = []
        for i in range(max(len(rc), len(rp))):
            a = rc[i] if i < len(rc) else {"act": "missing", "step": -1}
            b = rp[i] if i < len(rp) else {"act": "missing", "step": -1}
            if a.get("call") != b.get("call"):
                # a program stops at its first failing step: from there on the two runs are no longer the same program
                a, b = dict(a, out={"exc": "misaligned"}), dict(b, out={"exc": "misaligned-other"})
            keep = ("out", "self", "other", "arg_unchanged")
            paired.append({"act": "pair", "id": f"pair.{k}.{i}", "step": a.get("step", -1), "call": a.get("call", b.get("call", {})),
                           "c": {f: a[f] for f in keep if f in a}, "py": {f: b[f] for f in keep if f in b}})
        for j in range(0, len(paired), 800):
            pth = sc.work / f"rec-pair-{k:02d}-{j // 800:04d}.json"
            pth.write_text(json.dumps(paired[j:j + 800], separators=(",", ":")))
            shards.append(pth)
    validate(out, sc, "TraceUrl", "C05", shards, "url-differential")


def run(out, sc, tier, seed):
    # R1: the two transducers as STEP machines (byte machine with rewinds / code-point machine with look-ahead and the
    # `changed` flag), run side by side: both terminate with the closed forms and agree outside the named deviation
    from ..core import model_check
    res = model_check("QuoterSteps", step_cfg(3 if tier == "quick" else 4, "SmallCore" if tier == "quick" else "CharCore", STEP_INVS), sc.work, timeout=7200)
    out.add_model("QuoterSteps", res, what="step machines of _quoting_py and _quoting_c for all 9 configurations: " + ", ".join(STEP_INVS))
    res = model_check("QuoterSteps", step_cfg(3, "SmallCore", ["Inv_PyClosedForm"], ["RewindBad <- One"]), sc.work)
    out.add_model("QuoterSteps[negative: rewind 1 instead of 2]", res, expect_violation="Inv_PyClosedForm",
                  what="non-vacuity: an off-by-one in the malformed-escape rewind is found by TLC")
    run_unquoter_steps(out, sc, tier)
    run_quoter_level(out, sc, tier, seed, "C05", unq=True)
    # outputs crossing the compiled writer's 8 KiB growth boundaries (static buffer -> malloc -> realloc)
    keep = 0.02 if tier == "quick" else 1.0
    shards = run_driver(sc, "quote", {"mode": "boundary", "seed": seed, "keep": keep}, "boundary", nslices=12,
                        shard_size=60)
    results = validate_shards("TraceQuote", trace_cfg("C05"), shards, sc.work, heap="4g")
    recs = load_records(shards)
    if sum(r.records for r in results) != len(recs):
        raise MachineryFailure("TLC consumed a different number of records than were produced")
    out.add_trace_results("8KiB-boundaries", results, recs)
    url_differential(out, sc, tier, seed)
    from .common import run_witnesses
    run_witnesses(out, sc, "C05")
