"""C05 -- pure-Python and compiled quoters are interchangeable."""
from .quoterlevel import run_quoter_level

FINISH = dict(rule="R1: TLC enumerates all texts over CharCore/TokenCore/UnqTokens up to the stated length and checks "
                   "QuotePy = QuoteC (Level I); R2: every enumerated text is run through the real _quoting_py and "
                   "_quoting_c classes for all 9+4 configurations; R3: TLC evaluates C05.same on every record")


def run(out, sc, tier, seed):
    run_quoter_level(out, sc, tier, seed, "C05", unq=True)
