"""Entry point:  ./check <Cxx> [--tier quick|thorough] [--replay file]
exit 0: property held on everything explored (KNOWN-FINDING lines allowed)
exit 1: VIOLATION property=<id> replay=<path>
exit 2: MACHINERY-FAILURE (build error, TLC crash/timeout, records not consumed)"""
import argparse
import importlib
import os
import sys
import traceback

from .core import MachineryFailure, Scratch
from .report import Outcome


def main():
    ap = argparse.ArgumentParser()
    ap.add_argument("prop")
    ap.add_argument("--tier", default=os.environ.get("VERIF_TIER", "quick"), choices=["quick", "thorough"])
    ap.add_argument("--replay", default=None)
    ap.add_argument("--keep", action="store_true", help="keep the scratch directory (debugging)")
    a = ap.parse_args()
    seed = int(os.environ.get("VERIF_SEED", "0") or 0)
    prop = a.prop.upper()
    mod = importlib.import_module(f"vlib.props.{prop.lower()}")
    out = Outcome(prop, a.tier, seed)
    sc = None
    try:
        sc = Scratch()
        if a.replay:
            from .props.common import replay
            rc = replay(out, sc, a.replay)
            if rc is None:          # no single-call replay for this kind of record: re-run the check
                mod.run(out, sc, a.tier, seed)
                rc = out.finish(**getattr(mod, "FINISH", {}))
        else:
            mod.run(out, sc, a.tier, seed)
            rc = out.finish(**getattr(mod, "FINISH", {}))
        sys.exit(rc)
    except MachineryFailure as e:
        print(f"MACHINERY-FAILURE property={prop}: {e}", file=sys.stderr)
        sys.exit(2)
    except SystemExit:
        raise
    except Exception:
        traceback.print_exc()
        print(f"MACHINERY-FAILURE property={prop}: unexpected exception", file=sys.stderr)
        sys.exit(2)
    finally:
        if sc is not None and not a.keep:
            sc.cleanup()


if __name__ == "__main__":
    main()
