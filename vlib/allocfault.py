"""C19(ii): allocation-fault sweep of ONE (quoter configuration, input) in THIS process -- the parent runs one
child per input so that a crash (double free, heap corruption, ASan report) is an exit status, not a lost run.

  python -m vlib.allocfault <name> <fill> <n> <tok> <outfile>
Writes one JSON line per fault index k = 0, 1, 2, ... until a run completes without the fault firing."""
import json
import sys

import _testcapi


def main():
    name, fill, n, tok, outfile = sys.argv[1], sys.argv[2], int(sys.argv[3]), sys.argv[4], sys.argv[5]
    import yarl._quoting_c as qc
    from vlib.drivers.quote import _configs
    cls, kw = _configs()[name]
    q = getattr(qc, cls)(**kw)
    s = fill * n + tok + "b"
    expected = q(s)
    probe_in = "a b%41" + "é/"
    probe_out = q(probe_in)
    out = open(outfile, "w")
    k = 0
    while k < 200:
        outcome, result_correct = "none", False
        res = None
        _testcapi.set_nomemory(k, k + 1)
        try:
            try:
                res = q(s)
            finally:
                _testcapi.remove_mem_hooks()
            outcome = "result"
        except MemoryError:
            outcome = "MemoryError"
        except BaseException as e:  # noqa: BLE001
            outcome = "other:" + type(e).__name__
        if outcome == "result":
            result_correct = res == expected
        nxt = None
        try:
            nxt = q(probe_in) == probe_out and q(s) == expected
        except BaseException:  # noqa: BLE001
            nxt = False
        out.write(json.dumps({"k": k, "outcome": outcome, "result_correct": bool(result_correct), "next_correct": bool(nxt),
                              "outlen": len(expected), "inlen": len(s)}) + "\n")
        out.flush()
        if outcome == "result":
            break
        k += 1
    out.close()


if __name__ == "__main__":
    main()
