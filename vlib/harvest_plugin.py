"""pytest plugin (loaded with -p vlib.harvest_plugin): records the calls the repository's OWN tests make on yarl.URL as
transition records of the URL value machine (same schema as vlib/drivers/url.py), so that every Level A clause -- not just
the one assertion a test makes -- is evaluated by TLC on them.  The linearization point of a sequential library is the
call's return: the record is written there (also on the error path).  No source change in /repo: the public methods are
wrapped on the class object of the scratch copy."""
import functools
import json
import os

from vlib.core import T
from vlib.obs import exc_name, obs

_out = None
_n = 0
_depth = 0
FIELDS = None


def _opt_text(v):
    if v is None:
        return []
    if type(v) is str:
        return [T(v)]
    raise TypeError


def _text(v):
    if type(v) is not str:
        raise TypeError
    return T(v)


def _encode(name, args, kwargs):
    """-> args record in the driver's schema, or None when the call does not fit it (then it is not recorded)"""
    try:
        if name in ("with_user", "with_password", "with_fragment") and len(args) == 1 and not kwargs:
            return {"op": name, "v": _opt_text(args[0])}
        if name in ("with_scheme", "with_host") and len(args) == 1 and not kwargs:
            return {"op": name, "v": _text(args[0])}
        if name == "truediv" and len(args) == 1:
            return {"op": name, "v": _text(args[0])}
        if name == "with_port" and len(args) == 1 and not kwargs:
            v = args[0]
            if v is None:
                return {"op": name, "v": {"t": "none", "s": []}}
            if type(v) is int:
                return {"op": name, "v": {"t": "int", "s": T(str(v))}}
            return None
        if name in ("with_name", "with_suffix") and len(args) == 1:
            return {"op": name, "v": _text(args[0]), "keep_query": bool(kwargs.get("keep_query", False)),
                    "keep_fragment": bool(kwargs.get("keep_fragment", False))}
        if name == "with_path" and len(args) == 1:
            return {"op": name, "v": _text(args[0]), "encoded": bool(kwargs.get("encoded", False)),
                    "keep_query": bool(kwargs.get("keep_query", False)), "keep_fragment": bool(kwargs.get("keep_fragment", False))}
        if name == "joinpath":
            return {"op": name, "vs": [_text(a) for a in args], "encoded": bool(kwargs.get("encoded", False))}
        if name in ("origin", "relative") and not args and not kwargs:
            return {"op": name}
    except TypeError:
        return None
    return None


def _emit(rec):
    global _n
    _n += 1
    rec["id"] = f"suite.{os.getpid()}.{_n}"
    rec["be"] = "py" if os.environ.get("YARL_NO_EXTENSIONS") else "c"
    rec["tag"] = "suite"
    _out.write(json.dumps(rec, separators=(",", ":")) + "\n")


def _wrap_method(cls, attr, name):
    orig = getattr(cls, attr)

    @functools.wraps(orig)
    def wrapper(self, *args, **kwargs):
        global _depth
        a = _encode(name, args, kwargs) if _depth == 0 else None
        if a is None:
            return orig(self, *args, **kwargs)
        _depth += 1
        try:
            rec = {"act": name, "args": a, "step": 1, "self": obs(self, FIELDS)}
            try:
                r = orig(self, *args, **kwargs)
            except BaseException as e:  # noqa: BLE001
                rec["out"] = {"exc": exc_name(e)}
                _emit(rec)
                raise
            if isinstance(r, cls):
                rec["out"] = {"ok": obs(r, FIELDS)}
                _emit(rec)
            return r
        finally:
            _depth -= 1
    setattr(cls, attr, wrapper)


def pytest_configure(config):
    global _out
    path = os.environ.get("VERIF_HARVEST_OUT")
    if not path:
        return
    import yarl
    _out = open(f"{path}.{os.getpid()}.jsonl", "w")
    URL = yarl.URL
    for attr, name in (("with_scheme", "with_scheme"), ("with_user", "with_user"), ("with_password", "with_password"),
                       ("with_host", "with_host"), ("with_port", "with_port"), ("with_fragment", "with_fragment"),
                       ("with_path", "with_path"), ("with_name", "with_name"), ("with_suffix", "with_suffix"),
                       ("__truediv__", "truediv"), ("joinpath", "joinpath"), ("origin", "origin"), ("relative", "relative")):
        _wrap_method(URL, attr, name)
    orig_new = URL.__new__

    def new_wrapper(cls, val=yarl._url.UNDEFINED, *, encoded=False, strict=None):
        global _depth
        if _depth or type(val) is not str:
            return orig_new(cls, val, encoded=encoded, strict=strict)
        _depth += 1
        try:
            rec = {"act": "ctor", "args": {"op": "ctor", "s": T(val), "encoded": bool(encoded)}, "step": 0}
            try:
                r = orig_new(cls, val, encoded=encoded, strict=strict)
            except BaseException as e:  # noqa: BLE001
                rec["out"] = {"exc": exc_name(e)}
                _emit(rec)
                raise
            rec["out"] = {"ok": obs(r, FIELDS)}
            _emit(rec)
            return r
        finally:
            _depth -= 1
    URL.__new__ = staticmethod(new_wrapper)


def pytest_unconfigure(config):
    if _out:
        _out.close()
