"""C19: outputs of the compiled quoter that land exactly on / around the 8 KiB growth boundaries, each in its OWN process so
that memory corruption shows as an exit status (signal), not as a lost run.

  python -m vlib.boundaryrun <name> <fill> <n> <tok> <tail>
prints {"same": bool} -- the compiled result equals the pure-Python one -- and exits 0."""
import json
import sys


def main():
    name, fill, n, tok, tail = sys.argv[1], sys.argv[2], int(sys.argv[3]), sys.argv[4], int(sys.argv[5])
    import yarl._quoting_c as qc
    import yarl._quoting_py as qp
    from vlib.drivers.quote import _configs
    cls, kw = _configs()[name]
    s = fill * n + tok + "é" * tail
    rc = getattr(qc, cls)(**kw)(s)
    rp = getattr(qp, cls)(**kw)(s)
    again = getattr(qc, cls)(**kw)("a b%41é/") == getattr(qp, cls)(**kw)("a b%41é/")
    print(json.dumps({"same": rc == rp and again, "outlen": len(rc)}))


if __name__ == "__main__":
    main()
