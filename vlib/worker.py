"""Child process: imports yarl from the scratch copy (PYTHONPATH), runs a driver over a slice of
its calls and writes observation records as JSON shards.

  python -m vlib.worker <driver> <out_prefix> <slice_i> <slice_n> <shard_size> <json-params>
"""
import importlib
import json
import os
import sys
from pathlib import Path


def no_null(x):
    """JSON handed to TLC never carries null: keys with a None value are dropped"""
    if isinstance(x, dict):
        return {k: no_null(v) for k, v in x.items() if v is not None}
    if isinstance(x, (list, tuple)):
        return [no_null(v) for v in x]
    return x


def _small(call):
    """the replay description of a call; very large ones are not duplicated into the record"""
    try:
        if len(json.dumps(call)) > 20000:
            return {"big": True}
    except Exception:  # noqa: BLE001
        pass
    return call


BE = "py" if os.environ.get("YARL_NO_EXTENSIONS") else "c"


def main():
    driver_name, out_prefix, si, sn, shard_size, params = sys.argv[1:7]
    si, sn, shard_size = int(si), int(sn), int(shard_size)
    params = json.loads(params)
    import yarl
    scratch = os.environ.get("VERIF_SCRATCH")
    if scratch and not yarl.__file__.startswith(scratch):
        print("MACHINERY-FAILURE yarl imported from", yarl.__file__, file=sys.stderr)
        sys.exit(2)
    drv = importlib.import_module("vlib.drivers." + driver_name)
    if hasattr(drv, "setup"):
        drv.setup(params)
    if "calls_file" in params:
        calls = json.loads(Path(params["calls_file"]).read_text())
        it = (c for k, c in enumerate(calls) if k % sn == si)
    elif "gen" in params:
        g = importlib.import_module("vlib.gens." + params["gen"])
        it = (c for k, c in enumerate(g.gen(params)) if k % sn == si)
    else:
        it = (c for k, c in enumerate(drv.gen(params)) if k % sn == si)
    buf, k, n = [], 0, 0
    tag = os.path.basename(out_prefix)
    multi = hasattr(drv, "execute_all")
    for call in it:
        recs = drv.execute_all(call) if multi else [drv.execute(call)]
        for rec in recs:
            if rec is None:
                continue
            rec["call"] = _small(no_null(call))
            n += 1
            # ids are unique across drivers, back ends and slices
            rec["id"] = f"{tag}.{si}.{n}"
            rec["be"] = BE
            buf.append(rec)
        if len(buf) >= shard_size:
            Path(f"{out_prefix}-{si:02d}-{k:04d}.json").write_text(json.dumps(buf, separators=(",", ":")))
            buf, k = [], k + 1
    if buf:
        Path(f"{out_prefix}-{si:02d}-{k:04d}.json").write_text(json.dumps(buf, separators=(",", ":")))
    print(json.dumps({"records": n}))


if __name__ == "__main__":
    main()
