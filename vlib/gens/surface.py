"""C19 generator: the whole public surface on hostile input.
 * every string <= maxlen over a 13-character delimiter alphabet x three prefixes x both constructor modes, full observation
   (all accessors) of the result;
 * for a sample, one further public operation with a fixed benign argument, then str();
 * hostile arguments and wrong types from the documented unions through every modifier."""
import itertools
import random

from vlib.drivers.url import tv_of

T = lambda s: [ord(c) for c in s]  # noqa: E731
ALPHA = ["a", "1", ":", "/", "?", "#", "@", "[", "]", ".", "%", "v", " "]
STRF = ["str", "val"]
OPS = [
    {"op": "with_scheme", "v": T("http")}, {"op": "with_user", "v": [T("a")]}, {"op": "with_user", "v": []},
    {"op": "with_password", "v": [T("a")]}, {"op": "with_password", "v": []}, {"op": "with_host", "v": T("h")},
    {"op": "with_port", "v": tv_of(1)}, {"op": "with_port", "v": tv_of(None)},
    {"op": "with_path", "v": T("/x"), "encoded": False, "keep_query": False, "keep_fragment": False},
    {"op": "with_query", "q": {"form": "kwargs", "s": [], "pairs": [[T("a"), tv_of("1")]]}},
    {"op": "with_fragment", "v": [T("f")]}, {"op": "with_fragment", "v": []},
    {"op": "with_name", "v": T("n"), "keep_query": False, "keep_fragment": False},
    {"op": "with_suffix", "v": T(".x"), "keep_query": False, "keep_fragment": False},
    {"op": "truediv", "v": T("x")}, {"op": "joinpath", "vs": [T("a"), T("b")], "encoded": False},
    {"op": "join", "ref": {"op": "ctor", "s": T("x"), "encoded": False}},
    {"op": "update_query", "q": {"form": "str", "s": T("a=1"), "pairs": []}},
    {"op": "extend_query", "q": {"form": "str", "s": T("a=1"), "pairs": []}},
    {"op": "without_query_params", "keys": [T("a")]}, {"op": "parent"}, {"op": "origin"}, {"op": "relative"},
]
HOSTILE = ["", "/", "?", "#", "@", ":", "[", "]", "[]", "[:]", ":80", "%", "%zz", ".", "..", "//", "a" * 9000, "\x00", "\ud800",
           "é" * 1500, " ", "\n", "a/b", "//h", "http://x", "1", "-1", "٣", "℀", "%00", "\U0010FFFF"]
WRONG = [None, 0, 1, -1, 1.5, True, b"x", [], ["a"], ("a",), {"a": 1}, float("nan")]
METHODS = ["with_scheme", "with_user", "with_password", "with_host", "with_port", "with_path", "with_query", "with_fragment",
           "with_name", "with_suffix", "joinpath", "update_query", "extend_query", "without_query_params", "join", "__truediv__",
           "__mod__"]


def _tv(v):
    if isinstance(v, dict):
        return {"t": "str", "s": T("dict")}     # dicts are exercised through the query forms
    return tv_of(v)


def gen(params):
    rnd = random.Random(params.get("seed", 0))
    for n in range(0, params["maxlen"] + 1):
        for t in itertools.product(ALPHA, repeat=n):
            for pre in ("", "http://", "//"):
                s = pre + "".join(t)
                for enc in (False, True):
                    yield {"prog": [{"op": "ctor", "s": T(s), "encoded": enc}]}
                    if rnd.random() < params.get("op_p", 0.3):
                        yield {"prog": [{"op": "ctor", "s": T(s), "encoded": False}, rnd.choice(OPS)], "fields": STRF}
    bases = ["http://u:p@h:81/a/b.c?x=1#f", "http://h", "/a/b", "", "x:y", "//h", "http://[::1]/"]
    # hostile TEXT through every method whose documented parameter type is str (documented unions only:
    # undocumented types are outside C19)
    str_methods = [m for m in METHODS if m not in ("with_port", "join")]
    for b in bases:
        for m in str_methods:
            for a in HOSTILE:
                yield {"prog": [{"op": "ctor", "s": T(b), "encoded": False}, {"op": "call", "name": m, "a": [tv_of(a)]}],
                       "fields": STRF}
        for m in ("with_user", "with_password", "with_fragment", "with_port", "with_query", "update_query", "extend_query"):
            yield {"prog": [{"op": "ctor", "s": T(b), "encoded": False}, {"op": "call", "name": m, "a": [tv_of(None)]}],
                   "fields": STRF}
        for p_ in (0, 1, 65535, 65536, -1, 10 ** 12):
            yield {"prog": [{"op": "ctor", "s": T(b), "encoded": False}, {"op": "call", "name": "with_port", "a": [tv_of(p_)]}],
                   "fields": STRF}
    for _ in range(params["nbuild"]):
        kw = {}
        for name in ("scheme", "authority", "host", "path", "query_string", "fragment"):
            if rnd.random() < 0.4:
                kw[name] = T(rnd.choice(HOSTILE[:27]))
        for name in ("user", "password"):
            if rnd.random() < 0.3:
                kw[name] = [T(rnd.choice(HOSTILE[:27]))] if rnd.random() < 0.8 else []
        if rnd.random() < 0.4:
            kw["port"] = tv_of(rnd.choice([None, 0, 80, 65535, 65536, -1, 10 ** 12]))
        yield {"prog": [{"op": "build", "kw": kw}, rnd.choice(OPS)]}
