"""C18 generator: absolute URLs built from DECODED components (any Unicode text; IDN, IPv4, IPv6 hosts)."""
import random

from vlib.drivers.url import tv_of

T = lambda s: [ord(c) for c in s]  # noqa: E731
TOK = ["#", "/", ":", "?", "@", "[", "]", "&", "+", ";", "=", "%", "%41", "%2F", " ", "\t", "\x00", "\x7f", "\xa0", " ", "é", "ü",
       "\U0001F600", "℀", "a", "Z", "0", ".", "-", "~", "'", "(", "!", "*", ",", "$", "_", "日本", "́", "​", "﻿", "℡",
       "\x85", "　", "\\", "\"", "<", "|", "^", "`", "{"]
HOSTS = ["example.com", "bücher.example", "1.2.3.4", "::1", "fe80::1%eth0", "2001:db8::1", "h", "日本.jp", "EXAMPLE.Com", "a_b", "h."]
FIELDS = ["str", "val", "human_repr", "host", "raw_host"]


def txt(rnd, n=3):
    return "".join(rnd.choice(TOK) for _ in range(rnd.randrange(0, n + 1)))


def gen(params):
    rnd = random.Random(params.get("seed", 0))
    for _ in range(params["n"]):
        kw = {"scheme": T(rnd.choice(["http", "https", "ws", "ftp", "x", "git+ssh"])), "host": T(rnd.choice(HOSTS))}
        if rnd.random() < 0.5:
            kw["user"] = [T(txt(rnd))]
        if rnd.random() < 0.4:
            kw["password"] = [T(txt(rnd))]
        if rnd.random() < 0.4:
            kw["port"] = tv_of(rnd.choice([0, 80, 443, 8080, 65535]))
        if rnd.random() < 0.8:
            kw["path"] = T("/" + txt(rnd, 4))
        r = rnd.random()
        if r < 0.4:
            pairs = [[T(txt(rnd, 2)), tv_of(txt(rnd, 2))] for _ in range(rnd.randrange(0, 4))]
            kw["query"] = {"form": "pairs", "s": [], "pairs": pairs}
        if rnd.random() < 0.5:
            kw["fragment"] = T(txt(rnd))
        yield {"prog": [{"op": "build", "kw": kw}], "fields": FIELDS, "extras": ["human"]}
