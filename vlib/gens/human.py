"""C18 generator: absolute URLs built from DECODED components (any Unicode text; IDN, IPv4, IPv6 hosts)."""
import random

from vlib.drivers.url import tv_of

T = lambda s: [ord(c) for c in s]  # noqa: E731
TOK = ["#", "/", ":", "?", "@", "[", "]", "&", "+", ";", "=", "%", "%41", "%2F", " ", "\t", "\x00", "\x7f", "\xa0", " ", "é", "ü",
       "\U0001F600", "℀", "a", "Z", "0", ".", "-", "~", "'", "(", "!", "*", ",", "$", "_", "日本", "́", "​", "﻿", "℡",
       "\x85", "　", "\\", "\"", "<", "|", "^", "`", "{"]
# the ESCAPE SPELLING of every delimiter as literal (decoded) text, both cases -- a decoded value "a%3Db" must come back as
# "a%3Db", not "a=b" -- and the line terminators split_url removes
TOK += ["%%%02X" % ord(c) for c in "#/:?@[]&+;=% "] + ["%%%02x" % ord(c) for c in "#/?&+;="] + ["%25", "%0A", "\n", "\r"]
HOSTS = ["example.com", "bücher.example", "1.2.3.4", "::1", "fe80::1%eth0", "2001:db8::1", "h", "日本.jp", "EXAMPLE.Com", "a_b", "h.",
         # hosts only the IDNA-2003 codec (the library's fallback) accepts: symbols, an underscore next to an IDN label
         "☃.net", "😀.example", "_srv.хост.домен", "a_b.münchen.de", "хост_1.домен", "Bücher.EXAMPLE", "straße.de"]
FIELDS = ["str", "val", "human_repr", "host", "raw_host", "user", "password"]
DEFAULTS = {"http": 80, "https": 443, "ws": 80, "wss": 443, "ftp": 21}


def step(rnd, scheme):
    """a non-encoding modifier with a decoded argument: states URL.build cannot produce directly (an explicit default port, a
    port that became the default through a scheme change, a host replaced by an IDN one)"""
    r = rnd.random()
    if r < 0.3:
        return {"op": "with_port", "v": tv_of(rnd.choice([DEFAULTS.get(scheme, 80), 80, 443, 21, None, 8080]))}
    if r < 0.5:
        return {"op": "with_scheme", "v": T(rnd.choice(["http", "https", "ws", "wss", "ftp", "x"]))}
    if r < 0.65:
        return {"op": "with_host", "v": T(rnd.choice(HOSTS))}
    if r < 0.75:
        return {"op": "with_user", "v": [T(txt(rnd))]}
    if r < 0.85:
        return {"op": "with_password", "v": [T(txt(rnd))]}
    if r < 0.93:
        return {"op": "with_fragment", "v": [T(txt(rnd))]}
    return {"op": "with_name", "v": T(txt(rnd, 2).replace("/", "")), "encoded": False, "keep_query": True, "keep_fragment": True}


def txt(rnd, n=3):
    s = "".join(rnd.choice(TOK) for _ in range(rnd.randrange(0, n + 1)))
    if rnd.random() < 0.06:      # a plain word (what a "nothing to quote" fast path is written for) with one terminator at an end
        w = rnd.choice(["v1", "a", "x-y_z~0", "Index", "42", "日本"])
        nl = rnd.choice(["\n", "\r", "\x0b", "\u2028", "\x85", "\t"])
        s = w + nl if rnd.random() < 0.7 else nl + w
    return s


def gen(params):
    rnd = random.Random(params.get("seed", 0))
    for _ in range(params["n"]):
        scheme = rnd.choice(["http", "https", "ws", "ftp", "x", "git+ssh"])
        kw = {"scheme": T(scheme), "host": T(rnd.choice(HOSTS))}
        if rnd.random() < 0.5:
            kw["user"] = [T(txt(rnd))]
        if rnd.random() < 0.4:
            kw["password"] = [T(txt(rnd))]
        if rnd.random() < 0.4:
            kw["port"] = tv_of(rnd.choice([0, 80, 443, 8080, 65535]))
        if rnd.random() < 0.8:
            kw["path"] = T("/" + txt(rnd, 4))
        r = rnd.random()
        if r < 0.4:
            pairs = [[T(txt(rnd, 2)), tv_of(txt(rnd, 2))] for _ in range(rnd.randrange(0, 4))]
            kw["query"] = {"form": "pairs", "s": [], "pairs": pairs}
        if rnd.random() < 0.5:
            kw["fragment"] = T(txt(rnd))
        prog = [{"op": "build", "kw": kw}]
        for _ in range(rnd.choice((0, 0, 1, 2))):
            prog.append(step(rnd, scheme))
        yield {"prog": prog, "fields": FIELDS, "extras": ["human"]}
