"""Port grid: schemes x port spellings x host kinds x userinfo x routes (DESIGN C17)."""
import itertools
import random

from vlib.drivers.url import tv_of

T = lambda s: [ord(c) for c in s]  # noqa: E731
SCHEMES = ["http", "https", "ws", "wss", "ftp", "x", ""]
PORTS = [None, "", "0", "1", "20", "21", "22", "79", "80", "81", "442", "443", "444", "65534", "65535", "65536", "99999", "-1",
         "a", "8a", "080", "+80", "8_0", " 80", "８０"]
HOSTS = ["h", "1.2.3.4", "[::1]", "[fe80::1%25e]", "h.", ""]
USERINFO = ["", "u@", "u:p@"]
WITH_PORT_ARGS = [None, 0, 1, 80, 443, 21, 8080, 65535, 65536, 99999, -1, True, False, 1.0, "80", 10 ** 10]


def gen(params):
    if params.get("mode") == "frame":
        yield from gen_frame(params)
        return
    rnd = random.Random(params.get("seed", 0))
    fields = params["fields"]
    for sc, p, h, ui in itertools.product(SCHEMES, PORTS, HOSTS, USERINFO):
        s = (sc + ":" if sc else "") + "//" + ui + h + ("" if p is None else ":" + p) + "/a"
        for enc in (False, True):
            prog = [{"op": "ctor", "s": T(s), "encoded": enc}]
            r = rnd.random()
            if r < 0.25:
                prog.append({"op": "with_port", "v": tv_of(rnd.choice(WITH_PORT_ARGS))})
            elif r < 0.4:
                prog.append({"op": "with_scheme", "v": T(rnd.choice(SCHEMES[:6]))})
            elif r < 0.5:
                prog.append({"op": "origin"})
            yield {"prog": prog, "fields": fields}
    for sc, h in itertools.product(SCHEMES, ["h", "1.2.3.4", "::1", "h."]):
        for p in WITH_PORT_ARGS:
            kw = {"scheme": T(sc), "host": T(h), "port": tv_of(p)}
            yield {"prog": [{"op": "build", "kw": kw}], "fields": fields}
            if isinstance(p, int) and not isinstance(p, bool) and 0 <= p <= 65535:
                # the verbatim route keeps the scheme as given: the default port is that of the scheme AS STORED
                yield {"prog": [{"op": "build", "kw": dict(kw, encoded=True)}], "fields": fields}
                yield {"prog": [{"op": "build", "kw": dict(kw, scheme=T(sc.upper()), encoded=True)}], "fields": fields}
                yield {"prog": [{"op": "build", "kw": dict(kw, scheme=T(sc.upper()))}], "fields": fields}
            yield {"prog": [{"op": "ctor", "s": T((sc + ":" if sc else "") + "//" + ("[::1]" if h == "::1" else h) + ":8080/a"),
                             "encoded": False}, {"op": "with_port", "v": tv_of(p)}], "fields": fields}
        for p in PORTS[1:]:
            yield {"prog": [{"op": "build", "kw": {"scheme": T(sc), "authority": T(("[::1]" if h == "::1" else h) + ":" + p)}}],
                   "fields": fields}
    from vlib.gens import progs
    params2 = dict(params, ops=["with_port", "with_scheme", "with_host", "with_user", "origin", "with_path", "join"], encoded_p=0.2)
    yield from progs.gen(params2)


def gen_frame(params):
    """C11 over the same authority grid: every scheme x port spelling x host kind x userinfo, stored canonically (URL(s)) and
    VERBATIM (URL(s, encoded=True): the netloc text is kept as written, so a port may be spelled '', '080', '+80'), followed by
    one authority modifier with an acceptable argument -- the frame condition must hold whatever the stored spelling is."""
    rnd = random.Random(params.get("seed", 0) ^ 0xF2A)
    fields = params["fields"]
    mods = ([{"op": "with_port", "v": tv_of(p)} for p in (None, 0, 80, 443, 8080)]
            + [{"op": "with_user", "v": v} for v in ([], [T("x")], [T("a b")])]
            + [{"op": "with_password", "v": v} for v in ([], [T("s")], [T("")])]
            + [{"op": "with_host", "v": T(h)} for h in ("example.org", "::1", "1.2.3.4")]
            + [{"op": "with_scheme", "v": T(s)} for s in ("http", "https", "x")])
    for sc, p, h, ui in itertools.product(SCHEMES, PORTS, HOSTS, USERINFO):
        s = (sc + ":" if sc else "") + "//" + ui + h + ("" if p is None else ":" + p) + "/a"
        for enc in (False, True):
            for st in rnd.sample(mods, 2 if enc else 1):
                yield {"prog": [{"op": "ctor", "s": T(s), "encoded": enc}, dict(st)], "fields": fields}
