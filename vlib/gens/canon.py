"""C04 generators: candidate canonical URL strings.  Whether a candidate IS canonical is decided by TLC
(ContractUrl!CanonicalUrl); the generator only aims to hit the canonical language densely, with near misses."""
import itertools
import random
import string

T = lambda s: [ord(c) for c in s]  # noqa: E731
UNRES = string.ascii_letters + string.digits + "-._~"
SUB = "!$&'()*+,;="
LIT = {
    "user": UNRES + SUB, "password": UNRES + SUB, "path": UNRES + SUB + ":@/", "query": UNRES + SUB + ":@/?",
    "fragment": UNRES + SUB + ":@/?", "host": string.ascii_lowercase + string.digits + "-._~" + SUB,
}
MAY = {"path": "/+", "query": "&=+;"}
SCHEMES = ["http", "https", "ws", "wss", "ftp", "file", "x", "svn+ssh", "mailto", ""]
FIELDS = ["str", "val"]


def template(comp, text, scheme="http"):
    if comp == "user":
        return f"{scheme}://{text}@h/p"
    if comp == "password":
        return f"{scheme}://u:{text}@h/p"
    if comp == "host":
        return f"{scheme}://{text}/p"
    if comp == "path":
        return f"{scheme}://h/{text}"
    if comp == "query":
        return f"{scheme}://h/p?{text}"
    if comp == "fragment":
        return f"{scheme}://h/p#{text}"
    raise ValueError(comp)


def canon_text(rnd, comp, n):
    out = []
    for _ in range(n):
        r = rnd.random()
        if r < 0.7:
            out.append(rnd.choice(LIT[comp]))
        elif r < 0.85:
            b = rnd.randrange(256)
            out.append("%%%02X" % b)
        elif comp in MAY:
            out.append("%%%02X" % ord(rnd.choice(MAY[comp])))
        else:
            out.append(rnd.choice("éÉ %\"<>\\^`{|}\x7f"))     # near misses
    return "".join(out)


def gen(params):
    rnd = random.Random(params.get("seed", 0))

    def P(s):
        return {"prog": [{"op": "ctor", "s": T(s), "encoded": False}], "fields": FIELDS, "extras": params.get("extras", [])}
    # the 128 x 6 policy table: every ASCII character, literal and escaped (upper/lower), in every component
    for comp in (() if params.get("no_table") else ("user", "password", "host", "path", "query", "fragment")):
        for ch in range(128):
            for form in (chr(ch), "%%%02X" % ch, "%%%02x" % ch):
                for ctx in ("{}", "a{}b", "{}{}"):
                    yield P(template(comp, ctx.replace("{}", form)))
        for b in range(128, 256):
            yield P(template(comp, "a%%%02Xb" % b))
    # whole URLs from canonical pools
    hosts = ["h", "example.com", "a-b.c_d~e", "1.2.3.4", "a%2fb", "xn--bcher-kva.example", "h.", "sub!$&'()*+,;=x",
             "[::1]", "[2001:db8::6f]", "[fe80::1%25eth0]", "[1:2:3:4:5:6:7:8]", "[::]", "[2001:db8:0:1::]", "[a::b:0:0:c]",
             "[fe80::a%25en1]", "", "",
             # near misses: not the RFC 5952 text / not a canonical zone (TLC classifies them; they only count when canonical)
             "[2001:DB8::1]", "[0:0:0:0:0:0:0:1]", "[::ffff:1.2.3.4]", "[fe80::1%eth0]", "[1::0:0:1]"]
    ports = ["", ":0", ":1", ":80", ":443", ":21", ":8080", ":65535", ":081", ":65536", ":"]
    for _ in range(params["n"]):
        sc = rnd.choice(SCHEMES)
        s = sc + ":" if sc else ""
        if rnd.random() < 0.8:
            s += "//"
            r = rnd.random()
            if r < 0.3:
                s += canon_text(rnd, "user", rnd.choice((1, 2, 4))) + "@"
            elif r < 0.5:
                s += canon_text(rnd, "user", rnd.choice((0, 1, 3))) + ":" + canon_text(rnd, "password", rnd.choice((0, 1, 3))) + "@"
            s += rnd.choice(hosts) if rnd.random() < 0.8 else canon_text(rnd, "host", rnd.choice((1, 3, 6)))
            s += rnd.choice(ports)
            if rnd.random() < 0.85:
                s += "/" + canon_text(rnd, "path", rnd.choice((0, 1, 3, 8, 20)))
        else:
            s += canon_text(rnd, "path", rnd.choice((0, 1, 3, 8)))
        if rnd.random() < 0.5:
            s += "?" + canon_text(rnd, "query", rnd.choice((0, 1, 3, 8, 20)))
        if rnd.random() < 0.4:
            s += "#" + canon_text(rnd, "fragment", rnd.choice((0, 1, 3, 8)))
        yield P(s)
