"""ASCII-aliasing code points: characters outside ASCII that some *generic* program transformation maps into an ASCII class the
library's case analysis depends on (digit, hex digit, letter, delimiter).  A fast path keyed on a Unicode predicate
(`str.isdigit`, `str.isalnum`, `re` without `re.ASCII`, `re.IGNORECASE`), a narrowing cast (`<uint8_t>ch` as a table index), a case
mapping or a compatibility normalisation treats them like their ASCII image; RFC 3986 does not.

Families (each derived from the ASCII class it aliases, not from any particular defect):
  * low-byte aliases      cp = 0x0400 + c  for c a hex digit / '%' / delimiter  (Cyrillic letters whose low byte is that ASCII byte)
  * Unicode decimal digits / isdigit()-only characters   (Arabic-Indic, fullwidth, superscript, circled)
  * case-mapping aliases  KELVIN SIGN, LONG S, dotted / dotless i
  * fullwidth forms       U+FF01..U+FF5E  <->  U+0021..U+007E
"""
HEX = "0123456789ABCDEFabcdef"
LOWBYTE = [chr(0x0400 + ord(c)) for c in "09AFaf%/"]          # 'а' (U+0430 -> '0'), 'й'?, ... all assigned Cyrillic letters
UDIGITS = ["٣", "１", "²", "①", "۷", "१"]
CASEMAP = ["K", "ſ", "İ", "ı"]
FULLWIDTH = [chr(0xFF00 + ord(c) - 0x20) for c in "2Fa%/:"]
ALL = LOWBYTE + UDIGITS + CASEMAP + FULLWIDTH


def words(rnd):
    """a short text made ONLY of characters of one aliasing family (what a predicate-keyed fast path is written for), or a '%'
    followed by two such characters (what a table-indexed hex test is written for)"""
    fam = rnd.choice([LOWBYTE, UDIGITS, CASEMAP, FULLWIDTH, ALL])
    k = rnd.choice((1, 2, 2, 3))
    w = "".join(rnd.choice(fam) for _ in range(k))
    r = rnd.random()
    if r < 0.35:
        return "%" + (w + rnd.choice(fam))[:2]
    if r < 0.5:
        return rnd.choice(["1", "a", "x%", ""]) + w
    return w
