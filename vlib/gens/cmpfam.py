"""C10 near-collision families: start from a grid URL and change exactly one thing (one component, '' vs '/' path,
default port written or not, case, escape spelling, construction route)."""
import itertools
import random

from vlib.gens import grid

T = lambda s: [ord(c) for c in s]  # noqa: E731


def ctor(s, enc=False):
    return [{"op": "ctor", "s": T(s), "encoded": enc}]


def variants(rnd, s):
    """programs producing URLs near s"""
    out = [ctor(s), ctor(s, True)]
    for a, b in (("http://", "https://"), ("example.com", "example.org"), ("example.com", "EXAMPLE.com"), ("/a", "/A"),
                 ("/a", "/%61"), ("?", "?x&"), ("#", "#x"), (":80", ""), (":80", ":81"), ("u:", "v:"), ("@", ":@")):
        if a in s:
            out.append(ctor(s.replace(a, b, 1)))
    if s.endswith("/"):
        out.append(ctor(s[:-1]))
    else:
        out.append(ctor(s + "/"))
    out.append(ctor(s) + [{"op": "with_fragment", "v": []}])
    out.append(ctor(s) + [{"op": "with_query", "q": {"form": "none", "s": [], "pairs": []}}])
    out.append(ctor(s) + [{"op": "with_path", "v": T("/"), "encoded": False, "keep_query": True, "keep_fragment": True}])
    out.append(ctor(s) + [{"op": "with_path", "v": [], "encoded": False, "keep_query": True, "keep_fragment": True}])
    out.append(ctor(s) + [{"op": "origin"}])
    out.append(ctor(s) + [{"op": "parent"}])
    return out


SEEDS = ["http://a", "http://a/", "http://example.com:80/a?q#f", "http://u:p@example.com/a/b", "//a", "//a/", "/a", "a", "",
         "http://a?q", "http://a/?q", "http://a#f", "mailto:x", "http://[::1]/", "http://[::1]", "x://h", "x://h/", "http://A/",
         "http://a/%2F", "http://a//", "http://a:80", "https://a:443/", "file:///x", "?q", "#f", "http://é.com/é",
         # an authority WITHOUT a host (userinfo only, port only): '' and '/' paths are still the same URL
         "foo://user@", "foo://user@/", "x://:8080", "x://:8080/", "//u:p@", "//u:p@/", "x://u@:1?q", "x://u@:1/?q"]


# URLs whose RAW components differ but whose DECODED forms coincide (or vice versa): equality and ordering are defined on the
# raw parts, so within such a family everything must still be coherent
SPELLINGS = [["http://a/x/y", "http://a/x%2Fy", "http://a/x%2fy", "http://a/x%252Fy"], ["http://a/x+y", "http://a/x%2By", "http://a/x y"],
             ["http://a/?x=1&y=2", "http://a/?x=1%26y=2", "http://a/?x=1;y=2"], ["http://a/#f/g", "http://a/#f%2Fg"],
             ["http://u:p@a/", "http://u%3Ap@a/", "http://u:p%40@a/"], ["/x/y", "/x%2Fy", "x/y", "x%2Fy"]]


def split(*five):
    return [{"op": "split", "val": [T(x) for x in five]}]


def built(encoded=True, **kw):
    k = {n: T(v) for n, v in kw.items()}
    if encoded:
        k["encoded"] = True
    return [{"op": "build", "kw": k}]


# URLs only the verbatim routes (SplitResult, build(encoded=True)) can make: a scheme that is not lower-case, a rootless path
# under an authority -- next to the ordinary spellings they must not be confused with
VERBATIM = [[ctor("http://a/"), split("HTTP", "a", "/", "", ""), split("Http", "a", "/", "", ""), built(scheme="HTTP", host="a", path="/"),
             built(encoded=False, scheme="HTTP", host="a", path="/"), ctor("https://a/")],
            [ctor("http://example.com/b/c"), split("http", "example.com", "xb/c", "", ""), built(scheme="http", host="example.com", path="xb/c"),
             split("http", "example.com", "b/c", "", ""), ctor("http://example.com/xb/c")],
            [ctor("http://example.com/"), ctor("http://example.com"), split("http", "example.com", "b", "", ""), ctor("http://example.com/b"),
             split("http", "example.com", "/", "", "")]]


def gen(params):
    rnd = random.Random(params.get("seed", 0))
    fams = [variants(rnd, s) for s in SEEDS] + VERBATIM + [[ctor(s) for s in fam] + [ctor(s, True) for s in fam] for fam in SPELLINGS]
    for _ in range(params.get("nfam", 20)):
        fams.append(variants(rnd, grid.sample(rnd, ipvfuture=False)))
    for fam in fams:
        for p, q in itertools.product(fam, repeat=2):
            yield {"progs": [p, q]}
    allp = [p for fam in fams for p in fam]
    for _ in range(params["n"]):
        yield {"progs": [rnd.choice(allp), rnd.choice(allp)]}
    for _ in range(params["n3"]):
        fam = rnd.choice(fams)
        yield {"progs": [rnd.choice(fam), rnd.choice(fam), rnd.choice(fam if rnd.random() < 0.7 else allp)]}
