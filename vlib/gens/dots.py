"""Dot-segment heavy programs: every entry point that takes a path, fed sequences over the segment kinds of
spec/MC_Dots.tla (plus %2E spellings, which are dots for the constructor and literal text elsewhere)."""
import itertools
import random

T = lambda s: [ord(c) for c in s]  # noqa: E731
SEGS = [".", "..", "", "a", ".a", "a.", "..a", "...", "a.b", "%2E", "%2e%2E", ".%2E", "%2e", "b%2Fc", "é",
        # dot segments once the quoter has dropped a lone surrogate
        ".\udc80", "\udc80.", ".\udc80.", "..\udfff", "\ud800"]
BASES = ["http://h", "http://h/", "http://h/x", "http://h/x/", "http://h/x/y", "http://h/x//", "http://h/%2Fz/w%20v", "//h/x",
         "/x/y", "x/y", "", "file:///x/y", "mailto:x/y", "http://[::1]:81/x/y/"]


def gen(params):
    rnd = random.Random(params.get("seed", 0))
    fields = params["fields"]
    maxseg = params["maxseg"]
    # exhaustive over the 9 MC_Dots kinds up to 3 segments through every entry point
    core = SEGS[:9]
    for n in range(0, 4):
        for t in itertools.product(core, repeat=n):
            p = "/".join(t)
            yield {"prog": [{"op": "ctor", "s": T("http://h/" + p), "encoded": False}], "fields": fields}
            yield {"prog": [{"op": "build", "kw": {"scheme": T("http"), "host": T("h"), "path": T("/" + p)}}], "fields": fields}
            yield {"prog": [{"op": "ctor", "s": T("http://h/q/r"), "encoded": False},
                            {"op": "with_path", "v": T("/" + p), "encoded": False, "keep_query": False, "keep_fragment": False}],
                   "fields": fields}
            yield {"prog": [{"op": "ctor", "s": T("http://h/q/r"), "encoded": False}, {"op": "truediv", "v": T(p)}],
                   "fields": fields}
            yield {"prog": [{"op": "ctor", "s": T("http://h/q/r/"), "encoded": False},
                            {"op": "joinpath", "vs": [T(x) for x in t], "encoded": False}], "fields": fields}
    for _ in range(params["n"]):
        k = rnd.randrange(0, maxseg + 1) if rnd.random() < 0.9 else rnd.randrange(10, 40)
        segs = [rnd.choice(SEGS) for _ in range(k)]
        p = "/".join(segs)
        base = rnd.choice(BASES)
        r = rnd.random()
        if r < 0.2:
            sep = "" if base.endswith("/") or not base else "/"
            prog = [{"op": "ctor", "s": T(base + sep + p), "encoded": False}]
        elif r < 0.35:
            kw = {"path": T(("/" if rnd.random() < 0.8 else "") + p)}
            r2 = rnd.random()
            if r2 < 0.6:
                kw["host"] = T("h")
                kw["scheme"] = T("http")
            elif r2 < 0.8:        # an authority given as such, with and without a host part, any scheme
                kw["authority"] = T(rnd.choice(["h", "user@", ":8080", "u:p@:81", "u@h:1", "[::1]"]))
                kw["scheme"] = T(rnd.choice(["foo", "http", "x", ""]))
            prog = [{"op": "build", "kw": kw}]
        elif r < 0.5:
            prog = [{"op": "ctor", "s": T(base), "encoded": False},
                    {"op": "with_path", "v": T(("/" if rnd.random() < 0.7 else "") + p), "encoded": False,
                     "keep_query": False, "keep_fragment": False}]
        elif r < 0.65:
            prog = [{"op": "ctor", "s": T(base), "encoded": False}, {"op": "truediv", "v": T(p)}]
        elif r < 0.85:
            cut = sorted(rnd.sample(range(len(segs) + 1), min(len(segs) + 1, rnd.choice((1, 2, 3)))))
            pieces, prev = [], 0
            for c in cut + [len(segs)]:
                pieces.append("/".join(segs[prev:c]) + ("/" if rnd.random() < 0.2 else ""))
                prev = c
            prog = [{"op": "ctor", "s": T(base), "encoded": False},
                    {"op": "joinpath", "vs": [T(x) for x in pieces], "encoded": False}]
        else:
            prog = [{"op": "ctor", "s": T(base), "encoded": False},
                    {"op": "join", "ref": {"op": "ctor", "s": T(p), "encoded": False}}]
            if rnd.random() < 0.3:
                # a base only the VERBATIM route can make: dot segments stored under an authority.  RFC 3986 5.2.2 runs
                # remove_dot_segments over the MERGED path, so they must be gone after joining any reference with a non-empty
                # path -- dotted or dot-free (an empty reference path keeps Base.path as it is: not generated here)
                bsegs = [rnd.choice(SEGS[:9]) for _ in range(rnd.randrange(1, 5))]
                pp = p if any(c.isascii() and c.isalnum() for c in p) else "d"      # (a reference path that survives quoting)
                ref = rnd.choice(["d", "d/e", "x y", "é", "d/", "/d", pp, pp])
                prog = [{"op": "ctor", "s": T("http://h/" + "/".join(bsegs)), "encoded": True},
                        {"op": "join", "ref": {"op": "ctor", "s": T(ref), "encoded": False}}]
        yield {"prog": prog, "fields": fields}
