"""C13 generator: bases x segment texts x the spellings the path algebra relates."""
import random

from vlib.gens import alias
from vlib.gens.progs import TOKENS, text

T = lambda s: [ord(c) for c in s]  # noqa: E731
BASES = ["http://h", "http://h/", "http://h/a", "http://h/a/", "http://h/a/b", "http://h/a//", "http://h/a%20b/c%2Fd.txt",
         "http://h/é/ü.x", "/", "/a", "/a/", "/a/b.c", "a", "a/b", "a/", "", "//h/a", "file:///x/y.tar.gz", "mailto:a/b.c",
         "http://h/a.b.c", "http://h/.hidden", "http://h/a.", "http://h/a..b", "http://h/..a", "http://h/%2E%2E.x", "http://h/a?q#f",
         "http://h/b%2Fc/", "http://h/a+b%2B.x", "x:a/b.c", "http://h/%41.%42", "http://h/a/.b.c.d",
         "http://example.com/guide#top", "http://h/a/b?q=1", "http://h/a#f", "/a/b#frag", "a#f", "http://h/?q#f", "http://h#f"]
SEG_POOL = [t for t in TOKENS if "/" not in t]
SUFFIXES = ["", ".md", ".tar.gz", ".é", ".%41", ". x", ".+", ".a.b", ".%2F", ".x ", ".a%20b"]


def gen(params):
    rnd = random.Random(params.get("seed", 0))
    for _ in range(params["n"]):
        base = {"op": "ctor", "s": T(rnd.choice(BASES)), "encoded": False}
        fam = rnd.choice(["div", "join2", "with_name", "with_suffix"])
        if fam == "div":
            s = text(rnd, 3, pool=SEG_POOL) if rnd.random() < 0.8 else text(rnd, 3)
            if rnd.random() < 0.12:      # a segment made only of ASCII-aliasing code points (Unicode digits, low-byte aliases, ...)
                s = alias.words(rnd)
            alts = [[{"op": "truediv", "v": T(s)}], [{"op": "joinpath", "vs": [T(s)]}], [{"op": "truediv", "v": T(s)}, {"op": "parent"}]]
            args = {"s": T(s)}
        elif fam == "join2":
            a, b = text(rnd, 2, pool=SEG_POOL), text(rnd, 2, pool=SEG_POOL)
            if rnd.random() < 0.2:
                a += "/"
            if rnd.random() < 0.1:
                a, b = rnd.choice([(alias.words(rnd), b), (a, alias.words(rnd))])
            if rnd.random() < 0.15:      # the same text twice (the driver then passes the same OBJECT twice)
                b = a
            alts = [[{"op": "joinpath", "vs": [T(a), T(b)]}], [{"op": "joinpath", "vs": [T(a)]}, {"op": "joinpath", "vs": [T(b)]}],
                    [{"op": "truediv", "v": T(a.rstrip("/") + "/" + b if a.endswith("/") else a + "/" + b)}]]
            args = {"a": T(a), "b": T(b)}
        elif fam == "with_name":
            n = text(rnd, 3, pool=SEG_POOL)
            st = {"op": "with_name", "v": T(n), "keep_query": False, "keep_fragment": False}
            alts = [[st], [st, {"op": "parent"}], [{"op": "parent"}]]
            args = {"n": T(n)}
        else:
            x = rnd.choice(SUFFIXES)
            st = {"op": "with_suffix", "v": T(x), "keep_query": False, "keep_fragment": False}
            alts = [[st]]
            args = {"x": T(x)}
        yield {"base": base, "family": fam, "args": args, "alts": alts}
