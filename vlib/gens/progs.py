"""Program generators for the URL value machine: base (grid) + modifier steps with arguments drawn
from per-component token pools (DESIGN section 2 `Tokens`)."""
import itertools
import random

from vlib.drivers.url import tv_of
from vlib.gens import grid

T = lambda s: [ord(c) for c in s]  # noqa: E731

# literal delimiters of every component, must-escape ASCII, letters, escape tokens (valid / malformed / UTF-8 pieces)
TOKENS = ["/", "?", "#", "@", ":", "[", "]", "&", "=", ";", "+", " ", ".", "..", "%", '"', "<", ">", "\\", "^", "`", "{", "|",
          "}", "\x7f", "\x00", "\t", "\n", "a", "Z", "0", "-", "~", "_", "!", "$", "'", "(", ")", "*", ",",
          "%2F", "%2f", "%2B", "%25", "%26", "%3D", "%3B", "%3A", "%40", "%20", "%41", "%7E", "%2E", "%2e", "%00",
          "%C3%A9", "%C3", "%A9", "%E2%82%AC", "%F0%9F%98%80", "%FF", "%C0%80", "%ED%A0%80", "%4", "%G1", "%%",
          "é", "ü", "€", "\U0001F600", "\xa0", " ", "℀", "ß", "İ"]
SURR = ["\ud800", "\udfff"]
BASES = [
    "http://example.com", "http://example.com/", "http://example.com/a/b", "http://example.com/a/b/", "http://example.com/a//b",
    "http://u:p@example.com:8080/a%2Fb/c%20d.txt?x=1&y=2#frag", "https://[::1]:8443/p/q.tar.gz?a=1", "http://example.com:80/x",
    "http://example.com/a%20b/c%2Fd.txt", "http://example.com/é/ü.x", "//example.com/a", "/a/b", "/a/b/", "a/b", "a", "",
    "/", "?q=1", "#f", "mailto:user@example.com", "file:///etc/passwd", "x:a/b", "http://example.com/?a=1&b=2&a=3#f",
    "http://u@example.com/a.b.c", "http://:p@example.com/.hidden", "http://bücher.example/straße", "ws://h:0/",
    "http://[fe80::1%25eth0]:80/", "http://1.2.3.4/a/", "http://example.com./a", "http://example.com/a;p=1/b;q", "http://EXAMPLE.Com:8080/Path", "http://U:P@[2001:DB8::1]:80/",
    "http://example.com/%2E%2E/x", "http://example.com/a+b%2Bc?d+e=%2B", "http://h/a?", "http://h/a/..", "svn+ssh://h/r",
    "http://h/a%2Fb", "http://h/a%25b/c%2Fd", "http://h/a%2fb", "http://alice:pw@v2.example.com:8080/p", "http://u@vad.example.org/",
    "http://example.com:443/x", "ws://u@example.com:443/", "https://example.com:80/", "foo://user:pw@:8080/path", "//user@/path",
    "http://example.com/a/..x", "/a/...x.y", "http://h/..a.b", "http://example.com.:80/p", "http://example.com/x", "https://example.com/", "http://example.com.:8080/path", "http://[fe80::1%25Ethernet%202]:8080/x",
]


def text(rnd, maxtok=3, surrogate_p=0.0, pool=None):
    k = rnd.choice(range(0, maxtok + 1))
    pool = pool or TOKENS
    s = "".join(rnd.choice(pool) for _ in range(k))
    if surrogate_p and rnd.random() < surrogate_p:
        i = rnd.randrange(len(s) + 1)
        s = s[:i] + rnd.choice(SURR) + s[i:]
    if s and rnd.random() < 0.04:          # a line terminator at either END of an otherwise ordinary text ('$' / '^' anchored tests)
        nl = rnd.choice(["\n", "\r", "\n", "\x0b", "\u2028"])
        if rnd.random() < 0.5:          # ... of a plain word, which is what such a fast path is written for
            s = rnd.choice(["v1", "a", "x-y_z~0", "Index", "42"])
        s = s + nl if rnd.random() < 0.7 else nl + s
    return s


def opt_text(rnd, none_p=0.15, **kw):
    return [] if rnd.random() < none_p else [T(text(rnd, **kw))]


class SubList(list):
    """a proper subclass of list (a mapping value of such a type expands to repeated keys like a list)"""


class SubTuple(tuple):
    """a proper subclass of tuple (namedtuple, struct_time, ... are such)"""


TYPED = False
IPVFUTURE = False     # bases with an IPvFuture host (known finding bracketed-non-ipv6) only where asked for


def rnd_base(rnd, encoded_p=0.0, surrogate_p=0.0):
    r = rnd.random()
    if r < 0.5:
        s = rnd.choice(BASES)
    else:
        s = grid.sample(rnd, ipvfuture=IPVFUTURE)
    if encoded_p and rnd.random() < 0.1:
        # the third verbatim route: URL(SplitResult(...), encoded=True) with the five parts as urlsplit() cuts them
        from urllib.parse import urlsplit
        try:
            sp = urlsplit(s)
            return {"op": "split", "val": [T(sp.scheme), T(sp.netloc), T(sp.path), T(sp.query), T(sp.fragment)]}
        except ValueError:
            pass
    if surrogate_p and rnd.random() < surrogate_p:     # a lone surrogate somewhere in the URL text itself
        i = rnd.randrange(len(s) + 1)
        s = s[:i] + rnd.choice(SURR) + s[i:]
    return {"op": "ctor", "s": T(s), "encoded": rnd.random() < encoded_p}


def rnd_build(rnd, surrogate_p=0.0):
    kw = {}
    if rnd.random() < 0.8:
        kw["scheme"] = T(rnd.choice(["http", "https", "ws", "ftp", "x", "", "file", "HTTP"]))
    mode = rnd.random()
    if mode < 0.15:
        kw["authority"] = T(rnd.choice(["example.com", "u:p@example.com:8080", "[::1]:80", "u@h", ":p@h", "h:0", "é.com", "[v1.x]:1"]))
    elif mode < 0.9:
        kw["host"] = T(rnd.choice(["example.com", "EXAMPLE.com", "bücher.example", "1.2.3.4", "::1", "fe80::1%eth0", "h", "a_b", "h."]))
        if rnd.random() < 0.5:
            kw["user"] = opt_text(rnd, surrogate_p=surrogate_p)
        if rnd.random() < 0.4:
            kw["password"] = opt_text(rnd, surrogate_p=surrogate_p)
        if rnd.random() < 0.4:
            kw["port"] = tv_of(rnd.choice([0, 80, 443, 8080, 65535, None, 21]))
    if rnd.random() < 0.8:
        p = text(rnd, surrogate_p=surrogate_p)
        if ("host" in kw or "authority" in kw) and rnd.random() < 0.9:
            p = "/" + p
        kw["path"] = T(p)
    # query and query_string are drawn independently: both given (an error unless one of them is empty), either, neither
    if rnd.random() < 0.38:
        kw["query_string"] = T(text(rnd, surrogate_p=surrogate_p))
    if rnd.random() < 0.38:
        kw["query"] = rnd_qarg(rnd, forms=("mapping", "pairs", "str", "none", "multidict"), surrogate_p=surrogate_p, typed=TYPED)
    if rnd.random() < 0.5:
        kw["fragment"] = T(text(rnd, surrogate_p=surrogate_p))
    return {"op": "build", "kw": kw}


def rnd_qarg(rnd, forms=("str", "mapping", "multidict", "pairs", "tuplepairs", "kwargs", "none"), typed=False, surrogate_p=0.0):
    f = rnd.choice(forms)
    if f == "none":
        return {"form": "none", "s": [], "pairs": []}
    if f == "str":
        s = "&".join((text(rnd, 2) + rnd.choice(["=", "", "=="]) + text(rnd, 2)) for _ in range(rnd.choice((0, 1, 2, 3))))
        return {"form": "str", "s": T(s), "pairs": []}
    n = rnd.choice((0, 1, 2, 3))
    pairs = []
    keys = ["a", "b", "c", "", "a b", "é", "k&=", "+", "a;b", "%41", "query", "encoded", "args", "self"]
    for _ in range(n):
        k = rnd.choice(keys) if rnd.random() < 0.7 else text(rnd, 2, surrogate_p=surrogate_p)
        if f == "kwargs" and (not k or not isinstance(k, str)):
            k = "k"
        if typed and rnd.random() < 0.4:
            v = rnd.choice([0, -1, 10 ** 9, 1.5, 1e100, 1e16, -2.5e20, 1e-7, float("nan"), float("inf"), float("-inf"), True, False, None, b"x", -0.0, 0.0, 0, -0.0, 0.0,
                            [1, "x"], ["a", "b"], (), [], (1.5, 2), SubList(["s", "t"]), SubTuple(("u", 2))])
        elif f in ("mapping", "multidict") and rnd.random() < 0.2:
            v = [text(rnd, 1), text(rnd, 1)]
        else:
            v = text(rnd, 2, surrogate_p=surrogate_p)
        pairs.append([T(k), tv_of(v)])
    if f in ("mapping", "kwargs"):
        seen = {}
        for k, v in pairs:
            seen[tuple(k)] = [k, v]
        pairs = list(seen.values())
    return {"form": f, "s": [], "pairs": pairs}


TEXT_OPS = ["with_user", "with_password", "with_fragment", "with_path", "with_name", "with_suffix", "truediv", "joinpath",
            "with_query", "extend_query", "update_query", "join", "with_host", "with_scheme", "with_port",
            "without_query_params", "parent", "origin", "relative"]


def rnd_step(rnd, ops=TEXT_OPS, surrogate_p=0.0, typed=False, encoded_p=0.0):
    op = rnd.choice(ops)
    if op in ("with_user", "with_password", "with_fragment"):
        return {"op": op, "v": opt_text(rnd, surrogate_p=surrogate_p)}
    if op == "with_path":
        return {"op": op, "v": T(text(rnd, 4, surrogate_p=surrogate_p)), "encoded": rnd.random() < encoded_p,
                "keep_query": rnd.random() < 0.3, "keep_fragment": rnd.random() < 0.3}
    if op == "with_name":
        return {"op": op, "v": T(text(rnd, 3, surrogate_p=surrogate_p, pool=[t for t in TOKENS if "/" not in t])),
                "keep_query": rnd.random() < 0.3, "keep_fragment": rnd.random() < 0.3}
    if op == "with_suffix":
        s = rnd.choice(["", ".", ".md", ".tar.gz", ".é", ".%41", ". x", "md", ".a/b", ".%2F", ".+"])
        return {"op": op, "v": T(s), "keep_query": rnd.random() < 0.3, "keep_fragment": rnd.random() < 0.3}
    if op == "truediv":
        return {"op": op, "v": T(text(rnd, 3, surrogate_p=surrogate_p))}
    if op == "joinpath":
        return {"op": op, "vs": [T(text(rnd, 2, surrogate_p=surrogate_p)) for _ in range(rnd.choice((0, 1, 2, 3)))],
                "encoded": rnd.random() < encoded_p}
    if op in ("with_query", "extend_query", "update_query"):
        return {"op": op, "q": rnd_qarg(rnd, typed=typed, surrogate_p=surrogate_p)}
    if op == "join":
        r = rnd.random()
        refs = ["", "?y", "#s", "g", "./g", "g/", "/g", "//h", "//h/p", "..", "../..", "../../../g", "/./g", "g/../h",
                "g;x=1/./y", "http:g", "http://h2/p", "https://h2", "g?y#s", "%2E%2E/g", "a%2Fb", "a b", "é", ".", "./",
                "../g", "g//.", "x:y", "mailto:a@b", "g?", "?", "#", "#caf%E9", "#%FF", "#a%80b%2F", "?q=%E9%2B", "g?%FF#%C3",
                "#a b", "?a b", "g%2Fh/%2E", "#%41%2f"]
        s = rnd.choice(refs) if r < 0.7 else grid.sample(rnd, ipvfuture=IPVFUTURE)
        return {"op": op, "ref": {"op": "ctor", "s": T(s), "encoded": rnd.random() < encoded_p}}
    if op == "with_host":
        return {"op": op, "v": T(rnd.choice(["example.org", "EXAMPLE.org", "bücher.example", "1.2.3.4", "::1", "[::1]",
                                             "fe80::1%eth0", "a_b", "a b", "a/b", "a@b", "a:b", "", "é", "h.", "%41", "a%zz",
                                             "2001:DB8::0:1", "1.2.3.999", "xn--bcher-kva.example", "℀", "v2.example.com", "vad.example.org", "v1.x"]))}
    if op == "with_scheme":
        return {"op": op, "v": T(rnd.choice(["http", "https", "HTTP", "ws", "ftp", "x", "", "file", "mailto", "1a", "a b"]))}
    if op == "with_port":
        return {"op": op, "v": tv_of(rnd.choice([None, 0, 1, 80, 443, 21, 8080, 65535, 65536, -1, True, False, 1.0, "80", 10 ** 10]))}
    if op == "without_query_params":
        return {"op": op, "keys": [T(rnd.choice(["a", "b", "c", "", "a b", "x", "é", "a;b", "k", "ké", "q", "y"])) for _ in range(rnd.choice((0, 1, 2)))]}
    return {"op": op}


def gen(params):
    """mode "chains": n random programs base + `depth` steps."""
    global IPVFUTURE, TYPED
    IPVFUTURE = params.get("ipvfuture", False)
    TYPED = params.get("typed", False)
    rnd = random.Random(params.get("seed", 0))
    ops = params.get("ops", TEXT_OPS)
    fields = params.get("fields")
    extras = params.get("extras", [])
    sp = params.get("surrogate_p", 0.0)
    rnd_self = random.Random(params.get("seed", 0) ^ 0x5E1F)     # its own stream: the programs of the main stream are unchanged
    for call in _gen(params, rnd, ops, fields, extras, sp):
        for st in call["prog"][1:]:
            # the receiver's OWN text fed back (drivers.url._resolve_self): raw or decoded spelling of the component being set
            if st["op"] in SELF_SOURCES and rnd_self.random() < 0.06:
                st["from_self"] = rnd_self.choice(SELF_SOURCES[st["op"]])
        yield call


SELF_SOURCES = {"with_fragment": ["raw_fragment", "fragment"], "with_user": ["raw_user", "user"], "with_password": ["raw_password", "password"],
                "with_path": ["raw_path", "path"], "with_name": ["raw_name", "name"], "truediv": ["raw_name", "name"],
                "with_query": ["raw_query_string", "query_string"], "extend_query": ["raw_query_string", "query_string"]}


def _gen(params, rnd, ops, fields, extras, sp):
    for _ in range(params["n"]):
        if "update_query" in ops and rnd.random() < 0.04:
            # multi-valued receivers: several keys occurring more than once, several of them updated at once (in any order,
            # with fewer / as many / more values than the receiver has)
            keys = rnd.sample(["a", "b", "c", "k 1", "é"], rnd.choice((2, 3)))
            old = [(k, rnd.choice(["1", "2", "", "x y"])) for k in keys for _ in range(rnd.choice((1, 2, 2, 3)))]
            rnd.shuffle(old)
            new = [(k, rnd.choice(["n", "", "m&"])) for k in rnd.sample(keys, rnd.choice((1, 2, len(keys)))) for _ in range(rnd.choice((1, 1, 2)))]
            form = rnd.choice(["pairs", "multidict", "mapping", "str"])
            if form == "mapping":
                new = list(dict(new).items())
            from urllib.parse import quote
            q = ({"form": "str", "s": T("&".join(quote(k) + "=" + quote(v) for k, v in new)), "pairs": []} if form == "str"
                 else {"form": form, "s": [], "pairs": [[T(k), tv_of(v)] for k, v in new]})
            yield {"prog": [{"op": "ctor", "s": T("http://h/p?" + "&".join(quote(k) + "=" + quote(v) for k, v in old)), "encoded": False},
                            {"op": "update_query", "q": q}], "fields": fields, "extras": extras}
            continue
        if rnd.random() < params.get("build_p", 0.3):
            prog = [rnd_build(rnd, surrogate_p=sp)]
        else:
            prog = [rnd_base(rnd, params.get("encoded_p", 0.0), params.get("surrogate_base_p", 0.0))]
        for _ in range(rnd.choice(params.get("depths", (1, 1, 2, 3)))):
            prog.append(rnd_step(rnd, ops, surrogate_p=sp, typed=params.get("typed", False),
                                 encoded_p=params.get("encoded_p", 0.0)))
        yield {"prog": prog, "fields": fields, "extras": extras}
