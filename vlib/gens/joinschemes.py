"""C14: every scheme urllib's tables know (uses_relative, uses_netloc, uses_params, ...) and a few they do not, as the scheme of
the base -- with an authority, rooted without one, rootless -- against the reference shapes of RFC 3986 5.4.  The tables are the
interpreter's (environment data, as in spec/Env.tla), not yarl's copies of them."""
import urllib.parse as up

T = lambda s: [ord(c) for c in s]  # noqa: E731
REFS = ["../g", "g", "?y", "#s", "//h2/p", "/g", "", "./", "g/../h", "../../../g", "g;x=1/./y", "http:g", "x:y",
        # references with a path that resolves to the base's OWN path (the base query must still go)
        "c", "./c", "/a/b/c", "../b/c", ".", "/a/b", "b"]


def gen(params):
    schemes = sorted({s for name in ("uses_relative", "uses_netloc", "uses_params", "uses_query", "uses_fragment", "non_hierarchical")
                      for s in getattr(up, name, []) if s} | {"x", "mailto", "HTTP", "git+ssh", "coap", "rtspu"})
    for sc in schemes:
        for base in (f"{sc}://host/a/b/c?bq#bf", f"{sc}://u@host:81/a/./b/../c/", f"{sc}:/a/b/c", f"{sc}:a/b"):
            for enc in (False, True):
                for ref in REFS:
                    yield {"prog": [{"op": "ctor", "s": T(base), "encoded": enc},
                                    {"op": "join", "ref": {"op": "ctor", "s": T(ref), "encoded": False}}],
                           "fields": params.get("fields"), "extras": []}
