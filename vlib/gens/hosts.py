"""C16 generator: hosts through with_host / build / constructor, self re-encoding chains, NFKC delimiters."""
import itertools
import random
import unicodedata

T = lambda s: [ord(c) for c in s]  # noqa: E731
FIELDS = ["str", "val", "raw_host", "host", "host_subcomponent", "host_port_subcomponent", "explicit_port"]
REG_TOKENS = ["a", "A", "1", "-", ".", "_", "~", "!", "%41", "%", "%4", "é", "É", "ß", "xn--", "b", "Z", "$", "%2f", "%zz"]
BASES = ["http://h/", "http://u:p@h:8080/a?q#f", "x://h", "https://[::1]:8443/"]


def nfkc_delims():
    out = []
    for cp in range(0x80, 0x110000):
        if 0xD800 <= cp <= 0xDFFF:
            continue
        n = unicodedata.normalize("NFKC", chr(cp))
        if any(c in n for c in "/?#@:"):
            out.append(chr(cp))
    return out


def ipv6_spellings(rnd, n):
    for _ in range(n):
        g = [rnd.choice([0, 0, 0, 1, 0xa, 0xabcd, 0xa0, 0xffff]) for _ in range(8)]
        fmt = rnd.choice(["%x", "%04x", "%X", "%04X"])
        parts = [fmt % x for x in g]
        s = ":".join(parts)
        runs = [(i, j) for i in range(8) for j in range(i + 1, 9) if all(x == 0 for x in g[i:j])]
        if runs and rnd.random() < 0.7:
            i, j = rnd.choice(runs)
            s = ":".join(parts[:i]) + "::" + ":".join(parts[j:])
        if rnd.random() < 0.2:
            s += rnd.choice(["%eth0", "%25eth0", "%1", "%Ab", "%"])
        yield s


def progs_for_host(h, rnd):
    base = {"op": "ctor", "s": T(rnd.choice(BASES)), "encoded": False}
    yield [base, {"op": "with_host", "v": T(h)}, {"op": "with_host_self", "which": "raw_host"}]
    yield [base, {"op": "with_host", "v": T(h)}, {"op": "with_host_self", "which": "host"}]
    yield [{"op": "build", "kw": {"scheme": T("http"), "host": T(h), "path": T("/p")}}]
    hh = "[" + h + "]" if ":" in h else h
    yield [{"op": "ctor", "s": T("http://" + hh + "/p"), "encoded": False}, {"op": "with_host_self", "which": "raw_host"}]
    yield [{"op": "ctor", "s": T("http://u@" + hh + ":81/p"), "encoded": False}, {"op": "with_host_self", "which": "host"}]


def gen(params):
    rnd = random.Random(params.get("seed", 0))

    def P(prog):
        return {"prog": prog, "fields": FIELDS}
    # every ASCII character in host position x the three routes
    for ch in range(128):
        for h in (chr(ch), "a" + chr(ch) + "b", "a" + chr(ch)):
            for prog in progs_for_host(h, rnd):
                yield P(prog)
    # reg-name token strings
    for n in range(1, params["maxtok"] + 1):
        for t in itertools.product(REG_TOKENS, repeat=n):
            for prog in progs_for_host("".join(t), rnd):
                if rnd.random() < params.get("keep", 1.0):
                    yield P(prog)
    # IPv4 / IPv6 spellings (incl. model-dumped ones passed in by the property module)
    # the longest spellings an IPv6 address has: every group zero-padded, the low 32 bits as a dotted quad (40-45 characters)
    long6 = ["0000:0000:0000:0000:0000:ffff:10.0.100.1", "0000:0000:0000:0000:0000:0000:255.255.255.255",
             "2001:0db8:0000:0000:0000:ff00:192.168.100.200", "0000:0000:0000:0000:0000:ffff:255.255.255.255%25eth0",
             "fe80:0000:0000:0000:0204:61ff:254.157.241.86"]
    for h in long6:
        for prog in progs_for_host(h, rnd):
            yield P(prog)
    v4 = ["1.2.3.4", "255.255.255.255", "256.1.1.1", "01.2.3.4", "1.2.3", "1.2.3.4.5", "0.0.0.0", "1.2.3.4%5", "127.1"]
    for h in v4 + list(ipv6_spellings(rnd, params["nv6"])) + params.get("extra_hosts", []):
        for prog in progs_for_host(h, rnd):
            yield P(prog)
    # NFKC delimiters exhaustively x authority positions x both constructor modes
    for ch in nfkc_delims():
        for s in ("http://" + ch + "@h/", "http://u:" + ch + "@h/", "http://a" + ch + "b/", "http://u@h" + ch + ":80/",
                  "//" + ch, "http://h/" + ch, "http://u" + ch + "x:p@h/p?q",
                  "http://[fe80::1%eth" + ch + "0]/", "http://u@[::1%25" + ch + "]:81/p", "http://[" + ch + "]/"):
            for enc in (False, True):
                yield P([{"op": "ctor", "s": T(s), "encoded": enc}])
        for prog in progs_for_host(ch, rnd):
            yield P(prog)
        for prog in progs_for_host("a" + ch + "b.com", rnd):
            yield P(prog)
    # IDN hosts: lower-case ASCII result, idempotence, decode/re-encode
    for h in ["bücher.example", "BÜCHER.example", "Ab_c.é.com", "straße.de", "İstanbul.tr", "xn--bcher-kva.example", "ドメイン.テスト",
              "a\u200db.com", "ǅ.com", "xn--a.com", "é" * 70 + ".com", "a.b" * 90, "ﬁ.com", "℡.com", "①.com", "é.1", "хост.x1"]:
        for prog in progs_for_host(h, rnd):
            yield P(prog)
