"""Raw escape-run URLs: user/password/path/query/fragment built from the unquoter token set, constructed with
encoded=True (so malformed escapes stay verbatim in the raw component) and encoded=False."""
import itertools
import random

from vlib.drivers.quote import UNQ_TOKENS


def gen(params):
    rnd = random.Random(params.get("seed", 0))
    fields = params["fields"]
    toks = UNQ_TOKENS + ['%2E', '%2e', '.', 'x']
    texts = ["".join(t) for n in range(0, params["maxtok"] + 1) for t in itertools.product(toks, repeat=n)]
    for t in texts:
        if "/" in t or " " in t:
            tt = t.replace("/", "").replace(" ", "")
        else:
            tt = t
        for enc in (True, False):
            which = rnd.randrange(4)
            s = ["http://h/p/" + tt + rnd.choice(["", ".gz", "%2Egz", ".tar%2egz"]), "http://h/?k" + tt + "=" + tt + "&" + tt, "http://h/#" + tt,
                 "http://" + tt.replace("+", "") + ":" + tt.replace("+", "") + "@h/"][which]
            yield {"prog": [{"op": "ctor", "s": [ord(c) for c in s], "encoded": enc}], "fields": fields}
