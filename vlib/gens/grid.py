"""UrlGrid (DESIGN section 2): component pools and composition of URL strings.  `None` = absent."""
import itertools
import random

SCHEMES = ["", "http", "https", "ws", "wss", "ftp", "file", "svn", "x", "mailto", "HTTP", "git+ssh", "rtspu", "sftp", "tel", "nfs"]
USERS = [None, "", "u", "u%40x", "ü", "U s", "a:b"[:1], "%41", "p%FFq", "x%E2%82", "%c3%a9%2f", "u[:]", "[v1.x]"]
PASSWORDS = [None, "", "p", "p%3Aq", "p:q", "p@q"[:1], "é", "%FF", "%F0%9F%98", "%3a%40", "[p:w]"]
HOSTS = [None, "", "example.com", "EXAMPLE.Com", "bücher.example", "Ab_c.é.com", "1.2.3.4", "[::1]",
         "[2001:DB8:0:0:0:0:0:1]", "[fe80::1%25eth0]", "[v1.fe:80]", "example.com.", "xn--bcher-kva.example", "a_b",
         "[::ffff:1.2.3.4]", "localhost", "a%41b.com", "[1:0:0:2:0:0:0:3]", "[fe80::1%25Ethernet%202]", "[fe80::1%25%41]",
         "[0000:0000:0000:0000:0000:ffff:10.0.100.1]", "v2.example.com", "vad.example.org"]
PORTS = [None, "", "0", "DEFAULT", "80", "443", "21", "8080", "65535", "65536", "080"]
PATHS = ["", "/", "/a", "/a/", "/a//b", "a/b", "/a%2Fb/c%20d", "/é", "/a/../b", "/a/./b/%2E%2E/c", "/a.b/c.tar.gz",
         "//x", "/a b", "/%41", "/a:b@c", "a:b", "/a+b%2B", "/.", "/..", "/a/%2e", "/;p=1", "/%zz", "/%E2%82", "/a'(b)*!"]
QUERIES = ["", "a=1", "a=1&a=2&b", "a=%2B+%26", "a=b=c&&d", "q=é", "a;b=1", "a=1+2%203", "?x", "a=/?:@", "=", "&", "%zz",
           "k=%3D%3B", "a%20b=1&c=2", "a;b=1&a%3Bb=2", "%61=1&a=2", "k%c3%a9=1"]
FRAGMENTS = ["", "f", "f%23", "é/?", "a b", "%41", "#"]
DEFAULTS = {"http": "80", "https": "443", "ws": "80", "wss": "443", "ftp": "21"}


def compose(scheme, user, password, host, port, path, query, fragment):
    s = ""
    if scheme:
        s += scheme + ":"
    if host is not None:
        s += "//"
        if user is not None or password is not None:
            s += (user or "")
            if password is not None:
                s += ":" + password
            s += "@"
        s += host
        if port is not None:
            p = DEFAULTS.get(scheme.lower(), "80") if port == "DEFAULT" else port
            s += ":" + p
        if path and not path.startswith("/"):
            path = "/" + path
    s += path
    if query:
        s += "?" + query
    if fragment:
        s += "#" + fragment
    return s


POOLS = [SCHEMES, USERS, PASSWORDS, HOSTS, PORTS, PATHS, QUERIES, FRAGMENTS]


def sample(rnd: random.Random, ipvfuture=True):
    t = [rnd.choice(p) for p in POOLS]
    if rnd.random() < 0.35:        # no userinfo at all (otherwise only 1 sample in 110 has neither user nor password)
        t[1] = t[2] = None
    while not ipvfuture and t[3] == "[v1.fe:80]":
        t[3] = rnd.choice(HOSTS)
    return compose(*t)


def authority_product(paths=("", "/a"), queries=("",), fragments=("",)):
    """full product of the authority dimensions"""
    for t in itertools.product(SCHEMES, USERS, PASSWORDS, HOSTS, PORTS, paths, queries, fragments):
        yield compose(*t)


def tail_product(schemes=("http", ""), hosts=("example.com", None)):
    """full product of path x query x fragment"""
    for sc, h in itertools.product(schemes, hosts):
        for t in itertools.product(PATHS, QUERIES, FRAGMENTS):
            yield compose(sc, None, None, h, None, *t)
