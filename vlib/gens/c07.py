"""C07 generators: constructor programs over delimiter-heavy strings."""
import itertools
import random

from vlib.gens import grid

ALPHA = [ord(c) for c in "a1:/?#@[].+% \t\nv"]   # the alphabet of spec/MC_Split.tla
FIELDS = ["str", "val", "scheme", "raw_authority", "raw_path", "raw_query_string", "raw_fragment",
          "raw_user", "raw_password", "raw_host", "explicit_port"]


def prog(cps, encoded):
    return {"prog": [{"op": "ctor", "s": cps, "encoded": encoded}], "fields": FIELDS}


# characters outside ASCII that a case mapping (lower / upper / casefold, re.IGNORECASE) or a compatibility mapping (NFKC) turns
# into a scheme character or a delimiter: KELVIN SIGN, LONG S, dotted / dotless i, fullwidth and small-form delimiters and letters,
# ACCOUNT OF (a/c), superscript and Arabic-Indic digits
LOOKALIKES = ["\u212a", "\u017f", "\u0130", "\u0131", "\uff1a", "\ufe55", "\uff0f", "\uff20", "\uff03", "\uff1f", "\uff3b", "\uff3d",
              "\uff48", "\uff21", "\u2100", "\u00b9", "\u0663", "\uff10"]


def lookalike_strings():
    """every look-alike in every structural position of a small URL"""
    for c in LOOKALIKES:
        for t in ("{}x:y", "htt{}://h/p", "a{}:p", "{}://h", "http{}//h/p", "http:{}{}h/p", "http://u{}h/p", "http://h{}80/p",
                  "http://h:8{}/p", "http://h/p{}q", "http://h/p{}f", "http://{}::1]/", "//h{}p", "{}", "x{}"):
            yield t.replace("{}", c)


def gen(params):
    mode = params["mode"]
    if mode == "file":
        raise ValueError
    if mode == "exhaustive":
        for n in range(0, params["maxlen"] + 1):
            for t in itertools.product(ALPHA, repeat=n):
                for enc in (False, True):
                    yield prog(list(t), enc)
    elif mode == "random":
        rnd = random.Random(params.get("seed", 0))
        toks = ["http", "https", "HTTP", "ws", "ftp", "file", "mailto", "x", "1x", "+a", "a.b", ":", "/", "//", "?", "#",
                "@", "[", "]", "[::1]", "[v1.x]", "[fe80::1%25eth0]", ".", "..", "%", "%2F", "%2e", "%41", " ", "\t", "\n",
                "\r", "\x00", "\x1f", "é", "€", "\U0001F600", "80", "0", "65535", "65536", ":80", ":443", "u", "p", "u:p@",
                "host", "Host.COM", "1.2.3.4", "a=1&b=2", "+", ";", "=", "&", "\\", "|", "^"]
        # every C0 control, DEL, C1 NEL, no-break space, Unicode line/paragraph separators, BOM
        toks += [chr(c) for c in range(0x21)] + ["\x7f", "\x85", "\xa0", "\u2028", "\u2029", "\ufeff", "\u3000"]
        toks += LOOKALIKES
        for s in lookalike_strings():
            for enc in (False, True):
                yield prog([ord(c) for c in s], enc)
        # brackets that are NOT the host's: in the userinfo, before the last '@', with every kind of host after it
        for ui in ("u[:]", "u:[p:w]", "[v1.x]", "[::1]", "a[b", "a]b", "[", "]:["):
            for h in ("example.com", "1.2.3.4", "[::1]", "[fe80::1%25e]", "h:8080", "[::1]:81", ""):
                for tail in ("/p", "", "?q", "#f"):
                    for enc in (False, True):
                        yield prog([ord(c) for c in "http://" + ui + "@" + h + tail], enc)
        # a delimiter as the very LAST character, after an authority and nothing else
        for a in ("example.com", "u:p@h:8080", "[::1]", "h:", ""):
            for last in ("?", "#", "/", ":", "@", "?#", "#?", "/?"):
                for sc in ("http:", "x:", ""):
                    for enc in (False, True):
                        yield prog([ord(c) for c in sc + "//" + a + last], enc)
        for _ in range(params["n"]):
            k = rnd.choice((2, 3, 4, 5, 6, 8, 10))
            s = "".join(rnd.choice(toks) for _ in range(k))
            yield prog([ord(c) for c in s], rnd.random() < 0.5)
    elif mode == "grid":
        rnd = random.Random(params.get("seed", 0))
        for s in grid.tail_product():
            yield prog([ord(c) for c in s], False)
            yield prog([ord(c) for c in s], True)
        step = params.get("auth_step", 7)
        for k, s in enumerate(grid.authority_product()):
            if k % step == params.get("seed", 0) % step:
                yield prog([ord(c) for c in s], k % 2 == 0)
        ws = [chr(c) for c in range(0x21)] + ["\x7f", "\x85", "\xa0", "\u2028"]
        for _ in range(params["n"]):
            s = grid.sample(rnd)
            if rnd.random() < 0.3:      # sprinkle stripped / removed / suspicious characters
                for _ in range(rnd.choice((1, 2, 3))):
                    i = rnd.randrange(len(s) + 1)
                    s = s[:i] + rnd.choice(ws) + s[i:]
            yield prog([ord(c) for c in s], rnd.random() < 0.5)
