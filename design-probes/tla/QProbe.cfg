INIT Init
NEXT Next
CONSTANT MaxLen = 2
INVARIANT Idem
INVARIANT Ascii
CHECK_DEADLOCK FALSE
