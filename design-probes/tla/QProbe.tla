---- MODULE QProbe ----
EXTENDS Naturals, Sequences, FiniteSets, TLC
CONSTANTS MaxLen
PCT == 37
Alphabet == {37, 50, 70, 102, 65, 47, 43, 32, 233, 8364, 128512, 55296, 61, 38, 122, 71}
Hex == (48..57) \cup (65..70) \cup (97..102)
HexVal(c) == IF c \in 48..57 THEN c-48 ELSE IF c \in 65..70 THEN c-55 ELSE c-87
HexDigit(v) == IF v < 10 THEN 48+v ELSE 55+v
PctEnc(b) == <<37, HexDigit(b \div 16), HexDigit(b % 16)>>
Unreserved == (48..57) \cup (65..90) \cup (97..122) \cup {45,46,95,126}
SubNoQs == {33,36,39,40,41,42,44}
Allowed == Unreserved \cup SubNoQs
QS == {43,38,61,59}
Safe(cfg) == Allowed \cup cfg.safe \cup cfg.protected \cup (IF cfg.qs THEN {} ELSE QS)
Utf8(c) == IF c < 128 THEN <<c>>
   ELSE IF c < 2048 THEN <<192 + (c \div 64), 128 + (c % 64)>>
   ELSE IF c \in 55296..57343 THEN <<>>
   ELSE IF c < 65536 THEN <<224 + (c \div 4096), 128 + ((c \div 64) % 64), 128 + (c % 64)>>
   ELSE <<240 + (c \div 262144), 128 + ((c \div 4096) % 64), 128 + ((c \div 64) % 64), 128 + (c % 64)>>
RECURSIVE Flat(_)
Flat(ss) == IF ss = <<>> THEN <<>> ELSE Head(ss) \o Flat(Tail(ss))
WriteChar(cfg, c) == IF cfg.qs /\ c = 32 THEN <<43>>
   ELSE IF c < 128 /\ c \in Safe(cfg) THEN <<c>>
   ELSE LET u == Utf8(c) IN Flat([k \in 1..Len(u) |-> PctEnc(u[k])])
RECURSIVE Q(_,_,_)
Q(cfg, s, i) == IF i > Len(s) THEN <<>> ELSE
  LET c == s[i] IN
  IF c = PCT /\ cfg.requote /\ i+2 <= Len(s) /\ s[i+1] \in Hex /\ s[i+2] \in Hex THEN
     LET b == HexVal(s[i+1])*16 + HexVal(s[i+2]) IN
       (IF b < 128 /\ b \in cfg.protected THEN PctEnc(b)
        ELSE IF b < 128 /\ b \in Safe(cfg) THEN <<b>> ELSE PctEnc(b)) \o Q(cfg, s, i+3)
  ELSE WriteChar(cfg, c) \o Q(cfg, s, i+1)
Quote(cfg, s) == Q(cfg, s, 1)
PathRequoter == [safe |-> {64,58}, protected |-> {47,43}, qs |-> FALSE, requote |-> TRUE]
QueryRequoter == [safe |-> {63,47,58,64}, protected |-> {61,43,38,59}, qs |-> TRUE, requote |-> TRUE]
Cfgs == {PathRequoter, QueryRequoter}
VARIABLE s
Init == s = <<>>
Next == \E c \in Alphabet : Len(s) < MaxLen /\ s' = Append(s, c)
Idem == \A cfg \in Cfgs : LET o == Quote(cfg, s) IN Quote(cfg, o) = o
Ascii == \A cfg \in Cfgs : LET o == Quote(cfg, s) IN \A k \in 1..Len(o) : o[k] < 128 /\ (o[k] = 37 => k+2 <= Len(o) /\ o[k+1] \in (48..57) \cup (65..70) /\ o[k+2] \in (48..57) \cup (65..70))
====
