INIT Init
NEXT Next
CONSTANT MaxLen = 5
INVARIANT Refines
INVARIANT NoCrash
CHECK_DEADLOCK FALSE
