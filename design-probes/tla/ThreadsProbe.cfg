SPECIFICATION Spec
CONSTANTS
  Threads = {1, 2}
  MaxSize = 1
  YieldInFill = TRUE
  Programs <- ProgramsDef
INVARIANT CacheCoherent
INVARIANT LruCoherent
INVARIANT WrapperCoherent
INVARIANT SequentialResults
INVARIANT LruBounded
PROPERTY Immutable
CHECK_DEADLOCK FALSE
