---- MODULE Writer ----
EXTENDS Integers, FiniteSets
CONSTANTS
  \* @type: Int;
  BUF,
  \* @type: Int;
  MaxOut
VARIABLES
  \* @type: Str;
  pc,
  \* @type: Str;
  buf,
  \* @type: Int;
  size,
  \* @type: Int;
  pos,
  \* @type: Int;
  todo,
  \* @type: Int;
  liveHeap,
  \* @type: Int;
  frees,
  \* @type: Bool;
  freedStatic,
  \* @type: Bool;
  faultUsed,
  \* @type: Str;
  outcome
vars == <<pc, buf, size, pos, todo, liveHeap, frees, freedStatic, faultUsed, outcome>>
Init == /\ pc = "idle" /\ buf = "static" /\ size = BUF /\ pos = 0 /\ todo = 0 /\ liveHeap = 0
        /\ frees = 0 /\ freedStatic = FALSE /\ faultUsed = FALSE /\ outcome = "none"
Start == /\ pc = "idle" /\ \E n \in 0..MaxOut : todo' = n
         /\ pc' = "writing" /\ buf' = "static" /\ size' = BUF /\ pos' = 0 /\ outcome' = "none"
         /\ UNCHANGED <<liveHeap, frees, freedStatic, faultUsed>>
WriteNoGrow == /\ pc = "writing" /\ todo > 0 /\ pos < size
               /\ pos' = pos + 1 /\ todo' = todo - 1
               /\ UNCHANGED <<pc, buf, size, liveHeap, frees, freedStatic, faultUsed, outcome>>
GrowOk == /\ pc = "writing" /\ todo > 0 /\ pos = size
          /\ size' = size + BUF /\ buf' = "heap"
          /\ liveHeap' = IF buf = "static" THEN liveHeap + 1 ELSE liveHeap   \* malloc adds a block, realloc keeps count
          /\ pos' = pos + 1 /\ todo' = todo - 1
          /\ UNCHANGED <<pc, frees, freedStatic, faultUsed, outcome>>
GrowFail == /\ pc = "writing" /\ todo > 0 /\ pos = size /\ ~faultUsed
            /\ faultUsed' = TRUE /\ pc' = "releasing" /\ outcome' = "MemoryError"
            /\ UNCHANGED <<buf, size, pos, todo, liveHeap, frees, freedStatic>>
FinishOk == /\ pc = "writing" /\ todo = 0 /\ pc' = "releasing" /\ outcome' = "result"
            /\ UNCHANGED <<buf, size, pos, todo, liveHeap, frees, freedStatic, faultUsed>>
FinishFail == /\ pc = "writing" /\ todo = 0 /\ ~faultUsed /\ faultUsed' = TRUE
              /\ pc' = "releasing" /\ outcome' = "MemoryError"
              /\ UNCHANGED <<buf, size, pos, todo, liveHeap, frees, freedStatic>>
Release == /\ pc = "releasing"
           /\ IF buf = "heap" THEN /\ liveHeap' = liveHeap - 1 /\ frees' = frees + 1 /\ UNCHANGED freedStatic
                              ELSE UNCHANGED <<liveHeap, frees, freedStatic>>
           /\ pc' = "idle" /\ buf' = "static" /\ size' = BUF /\ pos' = 0
           /\ UNCHANGED <<todo, faultUsed, outcome>>
Next == Start \/ WriteNoGrow \/ GrowOk \/ GrowFail \/ FinishOk \/ FinishFail \/ Release
Spec == Init /\ [][Next]_vars
TypeOK == /\ pc \in {"idle","writing","releasing"} /\ buf \in {"static","heap"} /\ outcome \in {"none","result","MemoryError"}
          /\ size >= BUF /\ pos >= 0 /\ todo >= 0 /\ liveHeap >= 0 /\ frees >= 0
IndInv == /\ TypeOK
          /\ pos <= size
          /\ (buf = "static" => size = BUF /\ liveHeap = 0)
          /\ (buf = "heap" => liveHeap = 1 /\ size > BUF)
          /\ (pc = "idle" => buf = "static" /\ liveHeap = 0 /\ pos = 0)
          /\ ~freedStatic
IndInit == /\ pc \in {"idle","writing","releasing"} /\ buf \in {"static","heap"} /\ outcome \in {"none","result","MemoryError"}
           /\ size \in Int /\ pos \in Int /\ todo \in Int /\ liveHeap \in Int /\ frees \in Int
           /\ freedStatic \in BOOLEAN /\ faultUsed \in BOOLEAN
           /\ IndInv
NoLeakAtIdle == pc = "idle" => liveHeap = 0
Bound == frees <= 2
====
