---- MODULE SplitProbe ----
EXTENDS Naturals, Sequences, FiniteSets, TLC
CONSTANTS MaxLen
\* a=97 1=49 :=58 /=47 ?=63 #=35 @=64 [=91 ]=93 .=46 +=43 %=37 sp=32 tab=9 v=118 A=65
Alphabet == {97,49,58,47,63,35,64,91,93,46,43,37,32,9,118,65}
Alpha == (65..90) \cup (97..122)
Digit == 48..57
SchemeChars == Alpha \cup Digit \cup {43,45,46}
Lower(c) == IF c \in 65..90 THEN c + 32 ELSE c
LowerS(s) == [i \in 1..Len(s) |-> Lower(s[i])]
\* index of first element of s (from position p) in set D, or 0
RECURSIVE FindIn(_,_,_)
FindIn(s, p, D) == IF p > Len(s) THEN 0 ELSE IF s[p] \in D THEN p ELSE FindIn(s, p+1, D)
Sub(s, a, b) == IF a > b THEN <<>> ELSE SubSeq(s, a, b)
From(s, a) == Sub(s, a, Len(s))
RECURSIVE LStrip(_)
LStrip(s) == IF s # <<>> /\ s[1] <= 32 THEN LStrip(Tail(s)) ELSE s
Remove(s, D) == SelectSeq(s, LAMBDA c : c \notin D)
Strip(s) == Remove(LStrip(s), {9,10,13})
\* ---------- Level A: Appendix B with grammar-qualified scheme
SchemeOk(t) == t # <<>> /\ t[1] \in Alpha /\ \A i \in 1..Len(t) : t[i] \in SchemeChars
SchemeGray(t) == t # <<>> /\ t[1] \notin Alpha /\ \A i \in 1..Len(t) : t[i] \in SchemeChars
AppB(s, takeGray) ==
  LET d == FindIn(s, 1, {58,47,63,35})
      hasScheme == d > 1 /\ s[d] = 58 /\ (SchemeOk(Sub(s,1,d-1)) \/ (takeGray /\ SchemeGray(Sub(s,1,d-1))))
      scheme == IF hasScheme THEN LowerS(Sub(s,1,d-1)) ELSE <<>>
      r1 == IF hasScheme THEN From(s, d+1) ELSE s
      hasAuth == Len(r1) >= 2 /\ r1[1] = 47 /\ r1[2] = 47
      e == IF hasAuth THEN FindIn(r1, 3, {47,63,35}) ELSE 0
      auth == IF ~hasAuth THEN <<>> ELSE IF e = 0 THEN From(r1, 3) ELSE Sub(r1, 3, e-1)
      r2 == IF ~hasAuth THEN r1 ELSE IF e = 0 THEN <<>> ELSE From(r1, e)
      h == FindIn(r2, 1, {35})
      frag == IF h = 0 THEN <<>> ELSE From(r2, h+1)
      r3 == IF h = 0 THEN r2 ELSE Sub(r2, 1, h-1)
      q == FindIn(r3, 1, {63})
      query == IF q = 0 THEN <<>> ELSE From(r3, q+1)
      path == IF q = 0 THEN r3 ELSE Sub(r3, 1, q-1)
  IN <<scheme, auth, path, query, frag>>
\* ---------- Level I: split_url as written (find ':' first, scan scheme chars, earliest delimiter, partition # then ?)
Has(s, c) == FindIn(s, 1, {c}) # 0
Min(a, b) == IF a < b THEN a ELSE b
SplitUrl(s0) ==
  LET s == Strip(s0)
      i == FindIn(s, 1, {58})
      okScheme == i > 1 /\ s[1] \in SchemeChars /\ \A k \in 2..(i-1) : s[k] \in SchemeChars
      scheme == IF okScheme THEN LowerS(Sub(s,1,i-1)) ELSE <<>>
      u1 == IF okScheme THEN From(s, i+1) ELSE s
      hasHash == Has(u1, 35)  hasQ == Has(u1, 63)
      isNet == Len(u1) >= 2 /\ u1[1] = 47 /\ u1[2] = 47
      ds == {47} \cup (IF hasQ THEN {63} ELSE {}) \cup (IF hasHash THEN {35} ELSE {})
      w == IF isNet THEN FindIn(u1, 3, ds) ELSE 0
      delim == IF w = 0 THEN Len(u1) + 1 ELSE w
      netloc == IF isNet THEN Sub(u1, 3, delim-1) ELSE <<>>
      u2 == IF isNet THEN From(u1, delim) ELSE u1
      lb == Has(netloc, 91)  rb == Has(netloc, 93)
      br == IF lb THEN LET a == FindIn(netloc,1,{91}) b == FindIn(netloc, a+1, {93}) IN IF b = 0 THEN From(netloc, a+1) ELSE Sub(netloc, a+1, b-1) ELSE <<>>
      outcome == IF isNet /\ (lb # rb) THEN "ValueError"
                 ELSE IF isNet /\ lb /\ br = <<>> THEN "IndexError"
                 ELSE IF isNet /\ lb /\ br[1] = 118 THEN (IF Len(br) >= 4 \/ TRUE THEN "maybe" ELSE "ValueError")
                 ELSE IF isNet /\ lb /\ ~Has(br, 58) THEN "ValueError" ELSE "ok"
      h == FindIn(u2, 1, {35})
      frag == IF h = 0 THEN <<>> ELSE From(u2, h+1)
      u3 == IF h = 0 THEN u2 ELSE Sub(u2, 1, h-1)
      q == FindIn(u3, 1, {63})
      query == IF q = 0 THEN <<>> ELSE From(u3, q+1)
      path == IF q = 0 THEN u3 ELSE Sub(u3, 1, q-1)
  IN [outcome |-> outcome, parts |-> <<scheme, netloc, path, query, frag>>]
VARIABLE s
Init == s = <<>>
Next == \E c \in Alphabet : Len(s) < MaxLen /\ s' = Append(s, c)
Refines == LET r == SplitUrl(s) IN
   r.outcome \in {"ok","maybe"} => (r.parts = AppB(Strip(s), FALSE) \/ r.parts = AppB(Strip(s), TRUE))
NoCrash == SplitUrl(s).outcome # "IndexError"
====
