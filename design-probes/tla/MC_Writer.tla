---- MODULE MC_Writer ----
EXTENDS Integers
VARIABLES
  \* @type: Str;
  pc,
  \* @type: Str;
  buf,
  \* @type: Int;
  size,
  \* @type: Int;
  pos,
  \* @type: Int;
  todo,
  \* @type: Int;
  liveHeap,
  \* @type: Int;
  frees,
  \* @type: Bool;
  freedStatic,
  \* @type: Bool;
  faultUsed,
  \* @type: Str;
  outcome
BUF == 8192
MaxOut == 1000000
INSTANCE Writer
====
