---- MODULE TProbe ----
EXTENDS QProbe, Json, IOUtils, TLCExt
Recs == JsonDeserialize("trace.json")
VARIABLE l
TInit == l = 1 /\ s = <<>>
TNext == l <= Len(Recs) /\ Quote(PathRequoter, Recs[l].in) = Recs[l].out /\ l' = l + 1 /\ s' = s
Accepted == TLCGet("stats").diameter - 1 = Len(Recs)
====
