SPECIFICATION Spec
CONSTANTS BUF = 3
MaxOut = 10
INVARIANT IndInv
INVARIANT NoLeakAtIdle
CONSTRAINT Bound
