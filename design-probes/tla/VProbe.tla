---- MODULE VProbe ----
EXTENDS QProbe, Json, IOUtils, TLCExt
Recs == JsonDeserialize("trace.json")
VARIABLE l
Clauses(r) == (IF Quote(PathRequoter, r.in) = r.out THEN {} ELSE {"model_eq"})
         \cup (IF \A k \in 1..Len(r.out) : r.out[k] < 128 THEN {} ELSE {"ascii"})
TInit == l = 1 /\ s = <<>>
TNext == /\ l <= Len(Recs)
         /\ LET f == Clauses(Recs[l]) IN
              f # {} => PrintT(<<"VERDICT", Recs[l].id, f>>)
         /\ l' = l + 1 /\ s' = s
Accepted == TLCGet("stats").diameter - 1 = Len(Recs)
====
