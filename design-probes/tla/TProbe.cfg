INIT TInit
NEXT TNext
CONSTANT MaxLen = 5
POSTCONDITION Accepted
CHECK_DEADLOCK FALSE
