import sys, itertools, collections, unicodedata, string
sys.path.insert(0,'/repo')
from yarl import URL
cnt=collections.Counter(); ex=collections.defaultdict(list)
def note(k,*x):
    cnt[k]+=1
    if len(ex[k])<8: ex[k].append(x)
toks=['a','A','1','-','.','_','~','!','%41','%','%4','é','É','ß','xn--']
REG=set(string.ascii_letters+string.digits+"-._~!$&'()*+,;=%")
def check(u, how, h):
    rh=u.raw_host
    if rh is None: return
    base=rh.partition('%')[0] if ':' in rh else rh
    if not rh.isascii(): note('NONASCII',how,h,rh)
    if base!=base.lower(): note('UPPER',how,h,rh)
    s=str(u)
    try:
        u2=URL(s)
        if u2.raw_host!=rh: note('NOT-IDEMPOTENT',how,h,rh,u2.raw_host)
    except Exception as e: note('REPARSE-EXC',how,h,s)
    try:
        d=u.host
        w=URL('http://x/').with_host(d)
        if w.raw_host!=rh: note('DECODE-REENCODE',how,h,rh,d,w.raw_host)
    except Exception as e: note('REENC-EXC:'+type(e).__name__,how,h,rh,str(e)[:50])
    if ':' in rh:
        for a in ('host_subcomponent','host_port_subcomponent'):
            v=getattr(u,a)
            if not v.startswith('['): note('NOBRACKET:'+a,how,h,v)
        if '['+rh+']' not in s: note('NOBRACKET:str',how,h,s)
for n in range(1,4):
    for t in itertools.product(toks,repeat=n):
        h=''.join(t)
        for how,mk in [('ctor',lambda: URL('http://'+h+'/')),('build',lambda: URL.build(scheme='http',host=h)),('with_host',lambda: URL('http://x/').with_host(h))]:
            try: u=mk()
            except ValueError: cnt['reject:'+how]+=1; continue
            except Exception as e: note('CRASH:'+type(e).__name__,how,h); continue
            cnt['accept:'+how]+=1
            if how!='ctor' and any((c not in REG) for c in h if ord(c)<128): note('ACCEPT-BADCHAR',how,h)
            check(u,how,h)
# every ASCII char in host position
for c in map(chr,range(128)):
    for how,mk in [('build',lambda: URL.build(scheme='http',host='a'+c+'b')),('with_host',lambda: URL('http://x/').with_host('a'+c+'b'))]:
        try: u=mk()
        except ValueError: 
            if c in REG and c!='%': note('REJECT-LEGAL',how,c)
            continue
        except Exception as e: note('CRASH:'+type(e).__name__,how,c); continue
        if c not in REG: note('ACCEPT-ILLEGAL',how,repr(c),u.raw_host)
# ipv6 spellings
for h in ['::1','0:0:0:0:0:0:0:1','::0001','FE80::A','1:0:0:2:0:0:0:3','1:0:0:0:2:0:0:3','::ffff:1.2.3.4','1::','::','fe80::1%Eth0','FE80::1%25eth0','1:2:3:4:5:6:7:8','1:2:3:4:5:6:7::','0:0:1::','1.2.3.4','1.2.3.4%x','001.2.3.4','1.2.3','256.1.1.1']:
    for how,mk in [('ctor',lambda: URL('http://['+h+']/' if ':' in h else 'http://'+h+'/')),('build',lambda: URL.build(scheme='http',host=h)),('with_host',lambda: URL('http://x/').with_host(h))]:
        try: u=mk()
        except ValueError as e: cnt['ip-reject:'+how]+=1; continue
        print(how,h,'->',u.raw_host,str(u))
        check(u,how,h)
# NFKC screen
delims=[c for c in map(chr,range(0x110000)) if c not in '/?#@:' and any(d in unicodedata.normalize('NFKC',c) for d in '/?#@:')]
print(len(delims),'NFKC-delim code points', [hex(ord(c)) for c in delims[:8]])
for c in delims:
    for shape in ['http://a'+c+'b/','http://u'+c+'@h/','http://u:p'+c+'@h/','http://'+c+'/']:
        try: URL(shape); note('NFKC-ACCEPTED',hex(ord(c)),shape)
        except ValueError: cnt['nfkc-reject']+=1
print(cnt)
for k,v in ex.items():
    print(k); [print('   ',x) for x in v]
