import sys, itertools, collections
sys.path.insert(0,'/repo'); sys.path.insert(0,'/tmp/probe')
import yarl._quoting_py as qp, yarl._quoting_c as qc
from contracts import *
CFG = {
 'REQUOTER': (dict(), 'user', 'requote', '', False),
 'QUOTER': (dict(requote=False), 'user', 'plain', '', False),
 'PATH_REQUOTER': (dict(safe="@:", protected="/+"), 'path', 'requote', '/', False),
 'PATH_QUOTER': (dict(safe="@:", protected="/+", requote=False), 'path', 'plain', '/', False),
 'QUERY_REQUOTER': (dict(safe="?/:@", protected="=+&;", qs=True), 'query', 'requote', '=+&;', True),
 'QUERY_QUOTER': (dict(safe="?/:@", protected="=+&;", qs=True, requote=False), 'query', 'plain', '=+&;', True),
 'QUERY_PART_QUOTER': (dict(safe="?/:@", qs=True, requote=False), 'query', 'plain', '', True),
 'FRAGMENT_REQUOTER': (dict(safe="?/:@"), 'fragment', 'requote', '', False),
 'FRAGMENT_QUOTER': (dict(safe="?/:@", requote=False), 'fragment', 'plain', '', False),
}
alpha = ['%','2','5','F','f','4','1','/','+','A','z',' ','é','€','\U0001F600','&']
N=int(sys.argv[1])
cnt=collections.Counter(); ex=collections.defaultdict(list)
for name,(kw,comp,mode,delims,qs) in CFG.items():
    P=qp._Quoter(**kw); C=qc._Quoter(**kw)
    for n in range(0,N+1):
        for t in itertools.product(alpha, repeat=n):
            s=''.join(t)
            o=P(s); oc=C(s)
            if o!=oc:
                cnt[name+':PYC-DIFF']+=1
                if len(ex[name+':pyc'])<5: ex[name+':pyc'].append((s,o,oc))
            if not wellformed(comp,o):
                cnt[name+':C01-BAD']+=1
                if len(ex[name+':c01'])<5: ex[name+':c01'].append((s,o))
            if name=='QUERY_PART_QUOTER':
                # all data; output '+' means space
                a=[('B',b) for b in s.encode('utf8')]
                b_=items(o,'requote','',False)
                b_=[('B',0x20) if x==('B',ord('+')) and True else x for x in b_]  # literal + in output = space
                # but encoded %2B is B 0x2B: distinguish: recompute
                out=[];i=0
                while i<len(o):
                    if o[i]=='%': out.append(('B',int(o[i+1:i+3],16))); i+=3
                    elif o[i]=='+': out.append(('B',0x20)); i+=1
                    else: out.append(('B',ord(o[i]))); i+=1
                ok = a==out
            else:
                ok = items(s,mode,delims,qs)==items(o,'requote',delims,qs)
            if not ok:
                cnt[name+':C02-BAD']+=1
                if len(ex[name+':c02'])<5: ex[name+':c02'].append((s,o))
            if mode=='requote' and P(o)!=o:
                cnt[name+':IDEM-BAD']+=1
                if len(ex[name+':idem'])<5: ex[name+':idem'].append((s,o,P(o)))
            cnt[name+':n']+=1
print({k:v for k,v in cnt.items() if not k.endswith(':n')}, sum(v for k,v in cnt.items() if k.endswith(':n')))
for k,v in ex.items():
    print(k); [print('   ',x) for x in v]
