def remove_dot_segments(path):
    inp = path; out = ''
    while inp:
        if inp.startswith('../'): inp = inp[3:]
        elif inp.startswith('./'): inp = inp[2:]
        elif inp.startswith('/./'): inp = '/' + inp[3:]
        elif inp == '/.': inp = '/'
        elif inp.startswith('/../'):
            inp = '/' + inp[4:]; out = out[:out.rfind('/')] if '/' in out else ''
        elif inp == '/..':
            inp = '/'; out = out[:out.rfind('/')] if '/' in out else ''
        elif inp in ('.', '..'): inp = ''
        else:
            i = inp.find('/', 1)
            if i < 0: seg, inp = inp, ''
            else: seg, inp = inp[:i], inp[i:]
            out += seg
    return out
def merge(b_auth, b_path, r_path):
    if b_auth is not None and b_path == '': return '/' + r_path
    i = b_path.rfind('/')
    return (b_path[:i+1] if i >= 0 else '') + r_path
def transform(B, R):
    # B, R: (scheme|None, auth|None, path, query|None, frag|None); non-strict
    rs, ra, rp, rq, rf = R; bs, ba, bp, bq, bf = B
    if rs is not None and rs == bs: rs = None
    if rs is not None:
        return (rs, ra, remove_dot_segments(rp), rq, rf)
    if ra is not None:
        return (bs, ra, remove_dot_segments(rp), rq, rf)
    if rp == '':
        tp = bp; tq = rq if rq is not None else bq
    else:
        if rp.startswith('/'): tp = remove_dot_segments(rp)
        else: tp = remove_dot_segments(merge(ba, bp, rp))
        tq = rq
    return (bs, ba, tp, tq, rf)
