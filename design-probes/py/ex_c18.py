import sys, itertools, collections, random, unicodedata
sys.path.insert(0,'/repo')
from yarl import URL
toks=['a','%','%41','%2F',' ','\t','\x00','\x7f','\xa0',' ','é','😀','℀','#','/',':','?','@','[',']','&','+',';','=','.','..','"','<','\\']
cnt=collections.Counter(); ex=collections.defaultdict(list)
def note(k,*x):
    cnt[k]+=1
    if len(ex[k])<5: ex[k].append(x)
def texts(n):
    for k in range(0,n+1):
        for t in itertools.product(toks,repeat=k): yield ''.join(t)
T=list(texts(2))
random.seed(5)
hosts=['h.com','é.com','1.2.3.4','::1']
for i in range(60000):
    comp=random.choice(['user','password','path','qk','qv','fragment'])
    t=random.choice(T)
    kw=dict(scheme='http',host=random.choice(hosts))
    if comp=='user': kw['user']=t
    elif comp=='password': kw['user']='u'; kw['password']=t
    elif comp=='path': kw['path']='/'+t
    elif comp=='qk': kw['query']=[(t,'v')]
    elif comp=='qv': kw['query']=[('k',t)]
    else: kw['fragment']=t
    if random.random()<.3: kw['port']=random.choice([0,80,8080])
    try: u=URL.build(**kw)
    except ValueError as e: cnt['build-VE']+=1; continue
    h=u.human_repr()
    try: u2=URL(h)
    except Exception as e:
        note('RT-EXC:'+comp+':'+type(e).__name__, t, h); continue
    if u2!=u: note('RT-NEQ:'+comp, t, h, str(u), str(u2))
    else: cnt['ok:'+comp]+=1
    # readability: printable non-ascii shown raw
    for ch in t:
        if ord(ch)>127 and ch.isprintable() and ch not in h: note('NOT-READABLE:'+comp,t,h)
print(cnt)
for k,v in ex.items():
    print(k); [print('   ',x) for x in v]
