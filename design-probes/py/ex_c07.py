import sys, re, itertools, collections
sys.path.insert(0,'/repo')
from yarl import URL
AB = re.compile(r'^(([^:/?#]+):)?(//([^/?#]*))?([^?#]*)(\?([^#]*))?(#(.*))?', re.S)
SCHEME = re.compile(r'^[A-Za-z][A-Za-z0-9+.\-]*$')
C0 = ''.join(chr(i) for i in range(0x21))
def strip(s):
    s = s.lstrip(C0)
    return s.replace('\t','').replace('\r','').replace('\n','')
def appb(s, grammar=True):
    m = AB.match(s)
    scheme = m.group(2)
    if scheme is not None and grammar and not SCHEME.match(scheme):
        # scheme group not recognised: re-match with no scheme
        m2 = re.match(r'^()()(//([^/?#]*))?([^?#]*)(\?([^#]*))?(#(.*))?', s, re.S)
        return ('', m2.group(4), m2.group(5), m2.group(7) or '', m2.group(9) or '')
    return ((scheme or '').lower(), m.group(4), m.group(5), m.group(7) or '', m.group(9) or '')
alpha = ['a','1',':','/','?','#','@','[',']','.','+','%',' ','\t','v']
N = int(sys.argv[1])
cnt = collections.Counter(); ex = collections.defaultdict(list)
for n in range(0, N+1):
    for tup in itertools.product(alpha, repeat=n):
        s = ''.join(tup)
        try:
            u = URL(s, encoded=True)
            got = (u.scheme, u.raw_authority, u._path, u.raw_query_string, u.raw_fragment)
        except ValueError as e:
            cnt['reject'] += 1; 
            if len(ex['reject'])<8: ex['reject'].append((s,str(e)))
            continue
        except Exception as e:
            k='crash:'+type(e).__name__; cnt[k]+=1
            if len(ex[k])<8: ex[k].append(s)
            continue
        st = strip(s)
        exp = appb(st)
        exp2 = appb(st, grammar=False)
        e1 = (exp[0], exp[1] or '', exp[2], exp[3], exp[4])
        e2 = (exp2[0], exp2[1] or '', exp2[2], exp2[3], exp2[4])
        if got == e1: cnt['ok']+=1
        elif got == e2:
            cnt['ok-literal-appB']+=1
            if len(ex['lit'])<8: ex['lit'].append((s,got,e1))
        else:
            cnt['MISMATCH']+=1
            if len(ex['MISMATCH'])<25: ex['MISMATCH'].append((s,got,e1,e2))
print(cnt)
for k,v in ex.items():
    print(k)
    for x in v: print('   ',x)
