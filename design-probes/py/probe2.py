import sys, pickle
sys.path.insert(0,'/repo')
from yarl import URL
def t(label, f):
    try:
        print(label, '->', repr(f()))
    except Exception as e:
        print(label, 'EXC', type(e).__name__, e)
def twin(u): return pickle.loads(pickle.dumps(u))
for s in ['x://:80/', 'http://[v1.fe:80]/', 'http://:pw@h/', 'http://u:@h', 'http://@h', 'http://h:/', '//[::1%eth0]:8/']:
    u=URL(s)
    acc=['raw_user','raw_password','raw_host','explicit_port','host_subcomponent','raw_authority','raw_path']
    def ob(x):
        r=[]
        for a in acc:
            try: r.append(getattr(x,a))
            except Exception as e: r.append(type(e).__name__)
        return r
    print(s, ob(u), ob(twin(u)))
t('build user nfkc', lambda: URL.build(scheme='http', user='\u2100', host='h').human_repr())
t('build user nfkc rt', lambda: URL(URL.build(scheme='http', user='\u2100', host='h').human_repr()))
t('port +80', lambda: URL('http://h:+80/').explicit_port)
t('port 8_0', lambda: URL('http://h:8_0/').explicit_port)
t('port fullwidth', lambda: URL('http://h:\uff18\uff10/').explicit_port)
t('port -0', lambda: URL('http://h:-0/').explicit_port)
t('port sp', lambda: URL('http://h: 80/').explicit_port)
t('build a:b', lambda: (str(URL.build(path='a:b')), URL(str(URL.build(path='a:b'))).scheme))
t('scheme 1x', lambda: URL('1x:y').scheme)
t('update', lambda: str(URL('http://h/?a=1&b=2&a=3').update_query([('c','1'),('a','2')])))
t('update2', lambda: str(URL('http://h/?a=1&b=2&a=3').update_query([('a','9'),('a','10')])))
t('update3', lambda: str(URL('http://h/?a=1&b=2&a=3').update_query({'a':[7,8]})))
t('rootless join', lambda: str(URL('http:a/b').join(URL('../c'))))
t('rootless join2', lambda: str(URL('a/b').join(URL('../c'))))
t('rootless join3', lambda: str(URL('a/b').join(URL('../../c'))))
t('joinpath', lambda: (str(URL('http://h/a/') / 'b'), str(URL('http://h/a//') / 'b'), str(URL('http://h') / ''), str(URL('http://h/a') / '')))
t('with_name', lambda: str(URL('http://h/a/b').with_name('')))
t('parent', lambda: (str(URL('http://h/a/b/').parent), str(URL('a').parent), str(URL('/a').parent), str(URL('http://h/a').parent)))
t('human q', lambda: URL('http://h/?a').human_repr())
t('uppercase scheme encoded', lambda: URL('HTTP://H/', encoded=True).scheme)
t('str empty path', lambda: (str(URL('http://h')), URL('http://h').raw_path))
t('host space', lambda: str(URL('http://a b/')))
t('host pct', lambda: (URL('http://a%41b/').raw_host, URL('http://a%41b/').host))
t('with_host pct', lambda: (URL('http://x/').with_host('a%41b').raw_host))
t('host upper nonascii', lambda: (URL('http://ÉXAMPLE.com/').raw_host))
t('zone', lambda: (URL('http://[FE80::1%Eth0]/').raw_host, str(URL('http://[FE80::1%Eth0]/'))))
t('ipv4 zone', lambda: (URL('http://1.2.3.4%25x/').raw_host))
t('ipv6 v4 tail', lambda: (URL('http://[::ffff:1.2.3.4]/').raw_host))
t('ipv6 unbracketed with_host', lambda: str(URL('http://x/').with_host('::1')))
t('ipv6 bracketed with_host', lambda: str(URL('http://x/').with_host('[::1]')))
