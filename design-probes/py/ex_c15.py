import sys, itertools, collections
sys.path.insert(0,'/repo'); sys.path.insert(0,'/tmp/probe')
from yarl import URL
from ex_c14_lib import remove_dot_segments
segs=['.','..','','a','.a','a.','..a','%2E','%2e%2E','.%2E']
cnt=collections.Counter(); ex=collections.defaultdict(list)
def dec(p): return p.replace('%2E','.').replace('%2e','.')
for n in range(0,6):
    for t in itertools.product(segs, repeat=n):
        p='/'+'/'.join(t)
        # constructor: %2E are dots
        for label,mk,supplied in [('ctor', lambda: URL('http://h'+p), dec(p)),
                         ('build', lambda: URL.build(scheme='http',host='h',path=p), p.replace('%','%25')),
                         ('with_path', lambda: URL('http://h/x').with_path(p), p.replace('%','%25')),
                         ('ctor-noauth', lambda: URL(p), None)]:
            try: u=mk()
            except Exception as e:
                cnt[label+':exc:'+type(e).__name__]+=1; continue
            if supplied is None:
                ok = u.raw_path==dec(p)
            else:
                ok = u.raw_path==(remove_dot_segments(supplied) or '/')
            cnt[label+(':ok' if ok else ':BAD')]+=1
            if not ok and len(ex[label])<10: ex[label].append((p,u.raw_path,remove_dot_segments(supplied) if supplied else dec(p)))
print(cnt)
for k,v in ex.items():
    print(k); [print('   ',x) for x in v]
