import sys, threading, random, time
sys.path.insert(0,'/repo')
import yarl
from yarl import URL
import yarl._url as U

class Sched:
    """Baton-passing deterministic scheduler: every 'line' event in yarl/*.py is a yield point."""
    def __init__(self, choices):
        self.choices = list(choices)   # sequence of thread indexes to prefer at each yield
        self.pos = 0
        self.cv = threading.Condition()
        self.current = None
        self.alive = set()
        self.trace_len = 0
        self.taken = []
    def pick(self):
        live = sorted(self.alive)
        if not live:
            self.current = None; return
        if self.pos < len(self.choices):
            c = self.choices[self.pos] % len(live)
        else:
            c = 0
        self.pos += 1
        self.current = live[c]
        self.taken.append(self.current)
    def yield_point(self, tid):
        with self.cv:
            self.trace_len += 1
            self.pick()
            self.cv.notify_all()
            while self.current != tid:
                self.cv.wait()
    def tracer(self, tid):
        def local(frame, event, arg):
            if event == 'line':
                self.yield_point(tid)
            return local
        def noop(frame, event, arg):
            return noop
        def glob(frame, event, arg):
            fn = frame.f_code.co_filename
            if '/repo/yarl/' in fn:
                return local
            if fn.endswith('.pyx'):
                return noop
            return None
        return glob
    def run(self, progs):
        res = [None]*len(progs)
        def body(tid):
            sys.settrace(self.tracer(tid))
            with self.cv:
                while self.current != tid:
                    self.cv.wait()
            try:
                res[tid] = progs[tid]()
            except BaseException as e:
                import traceback; res[tid] = ("EXC", type(e).__name__, traceback.format_exc())
            finally:
                sys.settrace(None)
                with self.cv:
                    self.alive.discard(tid)
                    self.pick()
                    self.cv.notify_all()
        ths = [threading.Thread(target=body, args=(i,)) for i in range(len(progs))]
        self.alive = set(range(len(progs)))
        for t in ths: t.start()
        with self.cv:
            self.pick(); self.cv.notify_all()
        for t in ths: t.join()
        return res

def prog(s):
    def f():
        u = URL(s)
        return (str(u), u.host, u.port, u.path, str(u / 'x'), u.raw_user)
    return f

t0=time.time()
n=0
outs=set()
for seed in range(300):
    rnd = random.Random(seed)
    U.encode_url.cache_clear(); yarl.cache_clear()
    s = Sched([rnd.randrange(2) for _ in range(400)])
    r = s.run([prog('http://u:p@EXample.com:80/a%20b/../c?x=1#f'), prog('http://u:p@EXample.com:80/a%20b/../c?x=1#f')])
    outs.add(repr(r)); n+=1
print(n, 'schedules', time.time()-t0, 's', 'yield points', s.trace_len, 'distinct outcomes', len(outs))
print(r[0])
