import sys, itertools, collections, random, copy
sys.path.insert(0,'/repo')
from yarl import URL
from multidict import MultiDict
cnt=collections.Counter(); ex=collections.defaultdict(list)
def note(k,*x):
    cnt[k]+=1
    if len(ex[k])<6: ex[k].append(x)
existing=['','a=1','a=1&b=2&a=3','a=&=b&c','a=%2B+%26&b=x%3Dy','a=1&&b=2&','a;b=1']
keys=['a','b','c','','a b','k&=','+;','é','%41','#']
vals=['1','','x y','&=+;','%','#?/','é',5,-1,1.5,10**9]
rnd=random.Random(7)
def rs(v): return v if isinstance(v,str) else str(float(v)) if isinstance(v,float) else str(v)
for ex_q in existing:
    u=URL('http://h/p?'+ex_q) if ex_q else URL('http://h/p')
    old=list(u.query.items())
    for _ in range(1500):
        n=rnd.randint(0,3)
        pairs=[(rnd.choice(keys),rnd.choice(vals)) for _ in range(n)]
        form=rnd.choice(['pairs','dict','multidict','kwargs','str'])
        if form=='dict': arg=dict(pairs); exp=[(k,rs(v)) for k,v in arg.items()]
        elif form=='multidict': arg=MultiDict(pairs); exp=[(k,rs(v)) for k,v in pairs]
        elif form=='pairs': arg=list(pairs); exp=[(k,rs(v)) for k,v in pairs]
        elif form=='kwargs':
            d={k:v for k,v in pairs if k.isidentifier()}; arg=d; exp=[(k,rs(v)) for k,v in d.items()]
        else:
            continue
        before=copy.deepcopy(arg)
        def call(m):
            f=getattr(u,m)
            return f(**arg) if form=='kwargs' else f(arg)
        try:
            if form=='kwargs' and not arg: continue
            w=call('with_query'); e=call('extend_query'); p=call('update_query')
        except Exception as e_: note('EXC:'+type(e_).__name__,ex_q,form,pairs); continue
        if arg!=before: note('ARG-MUTATED',form,pairs)
        if list(w.query.items())!=exp: note('WITH',ex_q,form,pairs,list(w.query.items()),exp)
        if list(e.query.items())!=old+exp: note('EXTEND',ex_q,form,pairs,list(e.query.items()),old+exp)
        got=list(p.query.items()); K={k for k,_ in exp}
        if exp:
            if [x for x in got if x[0] not in K]!=[x for x in old if x[0] not in K]: note('UPDATE-KEPT',ex_q,form,pairs,got)
            for k in K:
                if [v for kk,v in got if kk==k]!=[v for kk,v in exp if kk==k]: note('UPDATE-KEY',ex_q,form,pairs,got,exp)
        else:
            if got!=old: note('UPDATE-EMPTY',ex_q,form,got,old)
        cnt['ok']+=1
    ks=[k for k,_ in old]
    for r in [(),('a',),('a','b'),('zz',),('',)]:
        w=u.without_query_params(*r)
        if list(w.query.items())!=[x for x in old if x[0] not in r]: note('WITHOUT',ex_q,r,list(w.query.items()))
for bad in [True,None,float('nan'),float('inf'),b'x',bytearray(b'x'),[1],{'x':1}]:
    for m in ('with_query','extend_query','update_query'):
        try: getattr(URL('http://h/?a=1'),m)({'k':bad}); 
        except (TypeError,ValueError): cnt['gate-ok']+=1
        except Exception as e: note('GATE-EXC:'+type(e).__name__,bad,m)
        else:
            if not isinstance(bad,list): note('GATE-ACCEPTED',repr(bad),m)
print(cnt)
for k,v in ex.items():
    print(k); [print('   ',x) for x in v]
