import sys, itertools, collections, pickle
sys.path.insert(0,'/repo')
from yarl import URL
schemes=['','http','https','ftp','file','svn','x','mailto']
users=[None,'','u','u%40','ü']
pws=[None,'','p','p:q']
hosts=['','h.com','H.Com','é.com','Ab_c.é.com','1.2.3.4','[::1]','[FE80::0:1%Eth0]','[v1.fe:80]','h.com.','a%41b','a b']
ports=[None,'','0','80','443','65535']
paths=['','/','/a','/a/','/a//b','a/b','/a%2Fb/c%20d','/é','/a/../b','/a:b','a:b/c']
queries=[None,'','a=1','a=1&a=2&b','a=%2B+%26','a b']
frags=[None,'','f','f%23']
ACC=['scheme','raw_authority','raw_user','user','raw_password','password','raw_host','host','host_subcomponent','host_port_subcomponent','port','explicit_port','raw_path','path','path_safe','raw_query_string','query_string','raw_fragment','fragment','raw_parts','parts','raw_name','name','raw_suffix','suffix','raw_suffixes','suffixes','absolute','raw_path_qs','path_qs','authority']
def obs(u):
    r={}
    for a in ACC:
        try: r[a]=getattr(u,a)
        except Exception as e: r[a]='EXC:'+type(e).__name__
    for a,f in [('str',lambda:str(u)),('human',lambda:u.human_repr()),('query',lambda:list(u.query.items())),('is_default_port',lambda:u.is_default_port()),('bytes',lambda:bytes(u))]:
        try: r[a]=f()
        except Exception as e: r[a]='EXC:'+type(e).__name__
    return r
cnt=collections.Counter(); ex=collections.defaultdict(list)
import random
random.seed(int(sys.argv[1])); N=int(sys.argv[2])
def note(k,s,extra=None):
    cnt[k]+=1
    if len(ex[k])<6: ex[k].append((s,extra))
for _ in range(N):
    sc=random.choice(schemes); us=random.choice(users); pw=random.choice(pws); ho=random.choice(hosts); po=random.choice(ports)
    pa=random.choice(paths); qu=random.choice(queries); fr=random.choice(frags)
    auth=None
    if random.random()<0.85:
        auth=ho
        if po is not None: auth+=':'+po
        if us is not None or pw is not None:
            auth=(us or '')+((':'+pw) if pw is not None else '')+'@'+auth
    s=(sc+':' if sc else '')+('//'+auth if auth is not None else '')+pa+('?'+qu if qu is not None else '')+('#'+fr if fr is not None else '')
    try: u=URL(s)
    except ValueError: cnt['reject']+=1; continue
    except Exception as e: note('CTOR-CRASH:'+type(e).__name__,s); continue
    o=obs(u)
    crashes=[k for k,v in o.items() if isinstance(v,str) and v.startswith('EXC:') and v not in('EXC:ValueError','EXC:TypeError')]
    if crashes: note('ACCESSOR-CRASH',s,[(k,o[k]) for k in crashes])
    # C01
    st=o['str']
    if isinstance(st,str) and not st.isascii(): note('C01-nonascii',s,st)
    # C09
    t=pickle.loads(pickle.dumps(u)); ot=obs(t)
    d=[k for k in o if o[k]!=ot[k]]
    if d: note('C09-twin',s,[(k,o[k],ot[k]) for k in d][:4])
    # C03
    try:
        u2=URL(st); o2=obs(u2)
        d=[k for k in o if o[k]!=o2[k]]
        if d: note('C03-fix',s,[(k,o[k],o2[k]) for k in d][:4])
    except Exception as e: note('C03-reparse-exc:'+type(e).__name__,s,st)
    cnt['n']+=1
print(cnt)
for k,v in ex.items():
    print(k); [print('   ',x) for x in v]
