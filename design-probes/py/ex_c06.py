import sys, itertools, collections, string
sys.path.insert(0,'/repo')
import yarl._quoting_py as qp, yarl._quoting_c as qc
HEX=set(string.hexdigits)
def wf_len(bs):
    """length of well-formed UTF-8 sequence at start of bs (Unicode table 3-7), 0 if ill-formed/incomplete"""
    if not bs: return 0
    b0=bs[0]
    if b0<0x80: return 1
    def cont(x,lo=0x80,hi=0xBF): return lo<=x<=hi
    if 0xC2<=b0<=0xDF: return 2 if len(bs)>=2 and cont(bs[1]) else 0
    if b0==0xE0: return 3 if len(bs)>=3 and cont(bs[1],0xA0) and cont(bs[2]) else 0
    if 0xE1<=b0<=0xEC or 0xEE<=b0<=0xEF: return 3 if len(bs)>=3 and cont(bs[1]) and cont(bs[2]) else 0
    if b0==0xED: return 3 if len(bs)>=3 and cont(bs[1],0x80,0x9F) and cont(bs[2]) else 0
    if b0==0xF0: return 4 if len(bs)>=4 and cont(bs[1],0x90) and cont(bs[2]) and cont(bs[3]) else 0
    if 0xF1<=b0<=0xF3: return 4 if len(bs)>=4 and cont(bs[1]) and cont(bs[2]) and cont(bs[3]) else 0
    if b0==0xF4: return 4 if len(bs)>=4 and cont(bs[1],0x80,0x8F) and cont(bs[2]) and cont(bs[3]) else 0
    return 0
def decode(raw, qs=False, keep=''):
    out=[]; i=0; n=len(raw)
    while i<n:
        # collect run of valid escapes starting at i
        if raw[i]=='%' and i+2<n+0 and i+2<=n-1 and raw[i+1] in HEX and raw[i+2] in HEX:
            bs=[]; j=i
            while j+2<=n-1 and raw[j]=='%' and raw[j+1] in HEX and raw[j+2] in HEX and len(bs)<4:
                bs.append(int(raw[j+1:j+3],16)); j+=3
            L=wf_len(bs)
            if L:
                ch=bytes(bs[:L]).decode('utf8')
                if ch in keep: out.append(raw[i:i+3*L].upper() if False else '%%%02X'%ord(ch))
                else: out.append(ch)
                i+=3*L; continue
            out.append(raw[i]); i+=1; continue
        if qs and raw[i]=='+': out.append(' ')
        else: out.append(raw[i])
        i+=1
    return ''.join(out)
toks=['%2F','%2f','%2B','%25','%41','%20','%C3','%A9','%E2','%82','%AC','%F0','%9F','%98','%80','%FF','%C0','%ED','%A0','%E0','%F4','%90','%','%4','%G1','a','+','/',' ','é']
N=int(sys.argv[1])
UN={'UNQUOTER':(dict(),False,''),'PATH_UNQUOTER':(dict(unsafe='+'),False,''),'PATH_SAFE':(dict(ignore='/%',unsafe='+'),False,'/%'),'QS':(dict(qs=True),True,'+=&;')}
cnt=collections.Counter(); ex=collections.defaultdict(list)
for name,(kw,qs,keep) in UN.items():
    P=qp._Unquoter(**kw); C=qc._Unquoter(**kw)
    for n in range(0,N+1):
        for t in itertools.product(toks, repeat=n):
            s=''.join(t); o=P(s); oc=C(s); e=decode(s,qs,keep)
            cnt[name+':n']+=1
            if o!=oc:
                cnt[name+':PYC']+=1
                if len(ex[name+'pyc'])<5: ex[name+'pyc'].append((s,o,oc))
            if o!=e:
                cnt[name+':DEC-BAD']+=1
                if len(ex[name+'dec'])<8: ex[name+'dec'].append((s,o,e))
print(cnt)
for k,v in ex.items():
    print(k); [print('   ',x) for x in v]
