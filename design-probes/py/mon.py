import sys
sys.path.insert(0,'/repo')
import yarl._url as U
from yarl import URL
mon=sys.monitoring; TID=3
mon.use_tool_id(TID,'verifrec')
targets={}
for name in ['with_user','with_path','join','__truediv__','with_query','update_query','with_port','with_host','joinpath','with_suffix','with_name','with_fragment','with_scheme','human_repr','__str__']:
    f=getattr(URL,name); code=f.__code__; targets[code]=name
for fn in [U.encode_url.__wrapped__, URL.build.__func__]:
    targets[fn.__code__]=fn.__name__
log=[]; stack=[]
def on_start(code, off):
    fr=sys._getframe(1)
    args={k:v for k,v in fr.f_locals.items()}
    stack.append((targets[code],args))
def on_return(code, off, ret):
    name,args=stack.pop()
    log.append((name,{k:(str(v) if isinstance(v,URL) else v) for k,v in args.items()},str(ret) if isinstance(ret,URL) else ret))
def on_unwind(code, off, exc):
    if code not in targets: return
    name,args=stack.pop(); log.append((name,'EXC',type(exc).__name__))
mon.register_callback(TID, mon.events.PY_START, on_start)
mon.register_callback(TID, mon.events.PY_RETURN, on_return)
mon.register_callback(TID, mon.events.PY_UNWIND, on_unwind)
for code in targets:
    mon.set_local_events(TID, code, mon.events.PY_START|mon.events.PY_RETURN)
mon.set_events(TID, mon.events.PY_UNWIND)
u=URL('http://h/a b?x=1')
v=(u/'c d').with_user('me').with_port(8080).update_query(y=2)
try: u.with_port(99999)
except ValueError: pass
print(str(v))
for l in log: print(l)
