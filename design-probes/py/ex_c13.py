import sys, itertools, collections, random
sys.path.insert(0,'/repo')
from yarl import URL
from yarl._quoters import PATH_QUOTER
bases=['http://h','http://h/','http://h/a','http://h/a/','http://h/a/b.txt','http://h/a//','http://h/a%20b/c%2Fd.tar.gz','http://h/é/ü.x','/a/b','/','a/b','a','','a/','http://h/.bashrc','http://h/a.','http://h/a..b','?q','http://h/a?q#f']
segs=['x','x y','é','%41','a.b','.c','','x/y','x//y','x/','.','..','x/../y','a:b','%2F','+',';=','?','#']
cnt=collections.Counter(); ex=collections.defaultdict(list)
def note(k,*x):
    cnt[k]+=1
    if len(ex[k])<6: ex[k].append(x)
for b in bases:
    u=URL(b)
    # recompose
    rp=u.raw_parts
    rec = (rp[0] if rp and rp[0]=='/' else (rp[0]+('/' if len(rp)>1 else '') if rp else '')) + '/'.join(rp[1:]) if rp else ''
    if rp and rp[0]=='/': rec='/'+'/'.join(rp[1:])
    else: rec='/'.join(rp)
    if rec!=u.raw_path: note('PARTS-RECOMPOSE',b,rp,u.raw_path)
    if u.parts and u.name!=(u.parts[-1] if not (u.raw_authority and len(u.parts)==1) else ''):
        if not (len(u.parts)==1 and u.parts[0]=='/'): note('NAME-LAST',b,u.parts,u.name)
    if u.suffix and not u.name.endswith(u.suffix): note('SUFFIX-TAIL',b)
    if ''.join(u.suffixes) and not u.name.endswith(''.join(u.suffixes)): note('SUFFIXES-TAIL',b,u.name,u.suffixes)
    for s in segs:
        try: d=u/s
        except ValueError as e: cnt['div-VE']+=1; continue
        j=u.joinpath(s)
        if d!=j or str(d)!=str(j): note('DIV!=JOINPATH',b,s)
        dotty = any(p in('.','..') for p in s.split('/'))
        if '/' not in s and not dotty and s!='':
            if d.name!=s: note('NAME!=S',b,s,d.name,str(d))
            pp=d.parent.parts; up=u.parts
            if up and up[-1]=='' and len(up)>1: up=up[:-1]
            if pp!=up and not (u._path=='' ): note('PARENT-PARTS',b,s,pp,up)
            elif pp!=up: cnt['parent-emptybase']+=1
    for a,b2 in itertools.product(['x','x y','y/z','é',''],repeat=2):
        try:
            r1=u.joinpath(a,b2); r2=u.joinpath(a).joinpath(b2)
        except ValueError: continue
        if r1!=r2: note('JOINPATH-ASSOC',b,a,b2,str(r1),str(r2))
        if a and b2:
            r3=u/(a+'/'+b2)
            if r1!=r3: note('JOINPATH-SLASH',b,a,b2,str(r1),str(r3))
    for n in ['n','n m','é','%41','a.b','?']:
        try: w=u.with_name(n)
        except ValueError: cnt['with_name-VE']+=1; continue
        if w.name!=n: note('WITH_NAME-NAME',b,n,w.name)
        if w.parent!=u.parent and u.name!='' : note('WITH_NAME-PARENT',b,n,str(w.parent),str(u.parent))
    for x in ['.md','','.tar.gz','.é']:
        try: w=u.with_suffix(x)
        except ValueError: cnt['with_suffix-VE']+=1; continue
        stem=u.name[:-len(u.suffix)] if u.suffix else u.name
        if w.name!=stem+x: note('WITH_SUFFIX-NAME',b,x,w.name,stem+x)
        if w.raw_parts[:-1]!=u.raw_parts[:-1]: note('WITH_SUFFIX-OTHER',b,x)
print(cnt)
for k,v in ex.items():
    print(k); [print('   ',x) for x in v]
