import sys, itertools, collections
sys.path.insert(0,'/repo')
from yarl import URL
ACC=['scheme','raw_authority','authority','raw_user','user','raw_password','password','raw_host','host','host_subcomponent','host_port_subcomponent','port','explicit_port','raw_path','path','path_safe','raw_query_string','query_string','raw_fragment','fragment','raw_parts','parts','raw_name','name','raw_suffix','suffix','raw_suffixes','suffixes','absolute','raw_path_qs','path_qs','query','parent']
MODS=[('str',lambda u:str(u)),('bytes',lambda u:bytes(u)),('human',lambda u:u.human_repr()),('hash',lambda u:hash(u)),('origin',lambda u:u.origin()),('relative',lambda u:u.relative()),('isdef',lambda u:u.is_default_port()),
      ('with_scheme',lambda u:u.with_scheme('http')),('with_user',lambda u:u.with_user('a')),('with_user_none',lambda u:u.with_user(None)),('with_password',lambda u:u.with_password('a')),('with_host',lambda u:u.with_host('h')),('with_port',lambda u:u.with_port(1)),
      ('with_path',lambda u:u.with_path('/x')),('with_query',lambda u:u.with_query(a='1')),('with_fragment',lambda u:u.with_fragment('f')),('with_name',lambda u:u.with_name('n')),('with_suffix',lambda u:u.with_suffix('.x')),('div',lambda u:u/'x'),('joinpath',lambda u:u.joinpath('a','b')),
      ('join',lambda u:u.join(URL('x'))),('rjoin',lambda u:URL('http://h/a').join(u)),('update_query',lambda u:u.update_query('a=1')),('extend_query',lambda u:u.extend_query('a=1')),('without',lambda u:u.without_query_params('a')),('str_of_with_port',lambda u:str(u.with_port(None))),('eq',lambda u:u==URL('http://h')),('lt',lambda u:u<URL('http://h'))]
alpha=['a','1',':','/','?','#','@','[',']','.','%','v',' ']
N=int(sys.argv[1])
cnt=collections.Counter(); ex=collections.defaultdict(list)
OKEXC=(ValueError,TypeError)
for enc in (False,):
  for n in range(0,N+1):
    for t in itertools.product(alpha,repeat=n):
      for pre in ('','http://','//'):
        s=pre+''.join(t)
        try: u=URL(s,encoded=enc)
        except OKEXC: continue
        except Exception as e:
            k=('ctor',enc,type(e).__name__); cnt[k]+=1
            if len(ex[k])<4: ex[k].append(s)
            continue
        for a in ACC:
            try: getattr(u,a)
            except OKEXC: pass
            except Exception as e:
                k=(a,enc,type(e).__name__); cnt[k]+=1
                if len(ex[k])<4: ex[k].append(s)
        for name,f in MODS:
            try:
                r=f(u)
                if isinstance(r,URL):
                    try: str(r)
                    except Exception as e2:
                        k=('STR-OF-'+name,enc,type(e2).__name__); cnt[k]+=1
                        if len(ex[k])<4: ex[k].append(s)
            except OKEXC: pass
            except Exception as e:
                k=(name,enc,type(e).__name__); cnt[k]+=1
                if len(ex[k])<4: ex[k].append(s)
for k,v in sorted(cnt.items(),key=str): print(k,v,ex[k])
