import sys, itertools, collections, random, string
sys.path.insert(0,'/repo')
from yarl import URL
UNRES=string.ascii_letters+string.digits+'-._~'
SUB="!$&'()*+,;="
LEGAL={'user':UNRES+SUB,'password':UNRES+SUB+':', 'path':UNRES+SUB+':@/','query':UNRES+SUB+':@/?','fragment':UNRES+SUB+':@/?'}
# what yarl leaves literal (policy) - the spec's canonical grammar must be: legal literal => literal
PROT={'user':'','password':'','path':'/+','query':'=+&;','fragment':''}
def canon_text(c,rnd,n):
    out=[]
    for _ in range(n):
        r=rnd.random()
        if r<0.6: out.append(rnd.choice(LEGAL[c]))
        elif r<0.85:
            # must-escape byte
            b=rnd.choice([x for x in range(256) if not (x<128 and chr(x) in LEGAL[c])])
            out.append('%%%02X'%b)
        elif PROT[c]:
            out.append('%%%02X'%ord(rnd.choice(PROT[c])))
    return ''.join(out)
rnd=random.Random(int(sys.argv[1]))
cnt=collections.Counter(); ex=collections.defaultdict(list)
for i in range(int(sys.argv[2])):
    scheme=rnd.choice(['http','https','x','ftp'])
    host=rnd.choice(['h.com','1.2.3.4','[::1]','[fe80::1%25eth0]','xn--9ca.com','a-b.c_d~e'])
    port=rnd.choice(['',':8080',':0',':1'])
    ui=''
    if rnd.random()<.5:
        ui=canon_text('user',rnd,rnd.randint(1,4))
        if rnd.random()<.5: ui+=':'+canon_text('password',rnd,rnd.randint(0,4))
        if ui=='' : ui='u'
        ui+='@'
    path='/'+canon_text('path',rnd,rnd.randint(0,8)) if rnd.random()<.9 else ''
    q=canon_text('query',rnd,rnd.randint(0,6)); f=canon_text('fragment',rnd,rnd.randint(0,5))
    s=f'{scheme}://{ui}{host}{port}{path}'+('?'+q if q else '')+('#'+f if f else '')
    # exclude dot segments
    if any(p in('.','..') for p in path.split('/')): continue
    if path=='' and (q or f): continue  # not canonical: str adds '/'
    try: o=str(URL(s))
    except Exception as e:
        cnt['EXC:'+type(e).__name__]+=1
        if len(ex['exc'])<5: ex['exc'].append((s,str(e)))
        continue
    if o!=s:
        cnt['CHANGED']+=1
        if len(ex['chg'])<15: ex['chg'].append((s,o))
    else: cnt['ok']+=1
print(cnt)
for k,v in ex.items():
    print(k); [print('   ',x) for x in v]
