import sys, re, itertools, collections
sys.path.insert(0,'/repo')
from yarl import URL
from urllib.parse import uses_relative
def remove_dot_segments(path):
    inp = path; out = ''
    while inp:
        if inp.startswith('../'): inp = inp[3:]
        elif inp.startswith('./'): inp = inp[2:]
        elif inp.startswith('/./'): inp = '/' + inp[3:]
        elif inp == '/.': inp = '/'
        elif inp.startswith('/../'):
            inp = '/' + inp[4:]; out = out[:out.rfind('/')] if '/' in out else ''
        elif inp == '/..':
            inp = '/'; out = out[:out.rfind('/')] if '/' in out else ''
        elif inp in ('.', '..'): inp = ''
        else:
            i = inp.find('/', 1)
            if i < 0: seg, inp = inp, ''
            else: seg, inp = inp[:i], inp[i:]
            out += seg
    return out
def merge(b_auth, b_path, r_path):
    if b_auth is not None and b_path == '': return '/' + r_path
    i = b_path.rfind('/')
    return (b_path[:i+1] if i >= 0 else '') + r_path
def transform(B, R):
    # B, R: (scheme|None, auth|None, path, query|None, frag|None); non-strict
    rs, ra, rp, rq, rf = R; bs, ba, bp, bq, bf = B
    if rs is not None and rs == bs: rs = None
    if rs is not None:
        return (rs, ra, remove_dot_segments(rp), rq, rf)
    if ra is not None:
        return (bs, ra, remove_dot_segments(rp), rq, rf)
    if rp == '':
        tp = bp; tq = rq if rq is not None else bq
    else:
        if rp.startswith('/'): tp = remove_dot_segments(rp)
        else: tp = remove_dot_segments(merge(ba, bp, rp))
        tq = rq
    return (bs, ba, tp, tq, rf)
def comps(u):
    # yarl can't distinguish undefined from empty; map '' -> None for scheme/auth, keep query/frag ''->None
    return (u.scheme or None, u.raw_authority or None, u._path, u.raw_query_string or None, u.raw_fragment or None)
bases = ['http://a/b/c/d;p?q', 'http://a/b/c/d;p?q#f', 'http://a', 'http://a/', 'http://a/b/', 'http://a/b%2Fc/d%20e/f', 'http://a?q#f',
         '/b/c', '/b/c/', 'b/c', 'b', '', 'http:b/c', 'http:/b/c', 'file:///b/c', 'x://a/b', 'mailto:a@b', '//a/b/c', 'http://a//b//c', 'http://a/b/../c']
toks = ['g', '.', '..', '/', '?y', '#s', '//h', 'http:', 'x:', ';x']
refs = set([''])
for n in (1,2,3):
    for t in itertools.product(toks, repeat=n): refs.add(''.join(t))
cnt = collections.Counter(); ex = collections.defaultdict(list)
for b in bases:
    B = URL(b)
    for r in sorted(refs):
        try: R = URL(r)
        except ValueError: cnt['ref-reject']+=1; continue
        try: J = B.join(R)
        except Exception as e:
            cnt['join-exc:'+type(e).__name__]+=1; continue
        bs = B.scheme
        if (R.scheme or bs) != bs or bs not in uses_relative:
            ok = (J == R) and str(J)==str(R); cnt['passthrough-ok' if ok else 'PASSTHROUGH-BAD']+=1
            continue
        exp = transform(comps(B), comps(R))
        got = comps(J)
        def norm(c):
            s,a,p,q,f = c
            if a is not None and p=='': p='/'
            return (s,a,p,q,f)
        if norm(got)==norm(exp): cnt['ok']+=1
        else:
            # classify
            d = [n for n,(x,y) in zip(['scheme','auth','path','query','frag'], zip(norm(got),norm(exp))) if x!=y]
            k='DIFF:'+','.join(d); cnt[k]+=1
            if len(ex[k])<12: ex[k].append((b,r,got,exp))
print(cnt)
for k,v in ex.items():
    print(k)
    for x in v: print('   ',x)
print("---- DIFF:path by base")
c2=collections.Counter()
for b in bases:
    B=URL(b)
    for r in sorted(refs):
        try: R=URL(r)
        except ValueError: continue
        J=B.join(R); bs=B.scheme
        if (R.scheme or bs)!=bs or bs not in uses_relative: continue
        exp=transform(comps(B),comps(R)); got=comps(J)
        gp=got[2]; ep=exp[2]
        if got[1] is not None and gp=='': gp='/'
        if exp[1] is not None and ep=='': ep='/'
        if gp!=ep:
            c2[b]+=1
            if c2[b]<=6: print('   ',repr(b),repr(r),'got',repr(got[2]),'exp',repr(exp[2]))
print(c2)
