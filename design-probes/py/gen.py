import json, random, sys
sys.path.insert(0,'/repo')
from yarl._quoting_py import _Quoter
q=_Quoter(safe="@:", protected="/+")
random.seed(1)
alpha=[37,50,70,102,65,47,43,32,233,8364,128512,61,38,122,71]
recs=[]
for i in range(int(sys.argv[1])):
    s=''.join(chr(random.choice(alpha)) for _ in range(random.randint(0,12)))
    recs.append({"in":[ord(c) for c in s],"out":[ord(c) for c in q(s)]})
json.dump(recs,open('trace.json','w'))
