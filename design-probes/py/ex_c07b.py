import sys, re, itertools, collections
sys.path.insert(0,'/repo')
from yarl import URL
DEFAULT={"http": 80, "https": 443, "ws": 80, "wss": 443, "ftp": 21}
def split_auth(a):
    # last '@'; first ':' of userinfo; ':' after host or ']'
    if '@' in a:
        ui, _, hp = a.rpartition('@')
        if ':' in ui: user, _, pw = ui.partition(':')
        else: user, pw = ui, None
    else:
        user, pw, hp = None, None, a
    if ']' in hp and '[' in hp:
        i = hp.index('['); j = hp.index(']', i) if ']' in hp[i:] else -1
        host = hp[i+1:j]; rest = hp[j+1:]
        port = rest.partition(':')[2] if ':' in rest else ''
    else:
        host, _, port = hp.partition(':')
    return user, pw, host, port
alpha = ['a','1',':','/','?','#','@','[',']','.','%','v','h','t','p']
N=int(sys.argv[1])
cnt=collections.Counter(); ex=collections.defaultdict(list)
for n in range(0,N+1):
  for tup in itertools.product(alpha, repeat=n):
    for pre in ('//','http://'):
        s=pre+''.join(tup)
        try:
            u=URL(s,encoded=True)
            obs=(u.raw_user,u.raw_password,u.raw_host,u.explicit_port)
            st=str(u)
        except ValueError: cnt['reject']+=1; continue
        except Exception as e:
            cnt['crash:'+type(e).__name__]+=1; continue
        a=u.raw_authority
        user,pw,host,port=split_auth(a)
        exp_port = int(port) if port.isdigit() and port.isascii() else None
        if port and not (port.isdigit() and port.isascii()): cnt['grayport']+=1; continue
        exp=(user or None, pw, host or None, exp_port)
        if obs!=exp:
            cnt['AUTH-MISMATCH']+=1
            if len(ex['auth'])<20: ex['auth'].append((s,a,obs,exp))
        else: cnt['auth-ok']+=1
        # recompose
        hs=u.host_subcomponent
        net=''
        if u.raw_authority!='' or True:
            net = hs or ''
            p=u.explicit_port
            if p is not None and p!=DEFAULT.get(u.scheme): net+=f':{p}'
            ui=None
            if u.raw_user is not None or u.raw_password is not None:
                ui=(u.raw_user or '')+((':'+u.raw_password) if u.raw_password is not None else '')
                net=ui+'@'+net
        path=u.raw_path
        rec=(u.scheme+':' if u.scheme else '')+('//'+net if u.raw_authority else '')+path+('?'+u.raw_query_string if u.raw_query_string else '')+('#'+u.raw_fragment if u.raw_fragment else '')
        alt=(u.scheme+':' if u.scheme else '')+('//'+net if u.raw_authority else '')+u._path+('?'+u.raw_query_string if u.raw_query_string else '')+('#'+u.raw_fragment if u.raw_fragment else '')
        if st in (rec,alt): cnt['recompose-ok']+=1
        else:
            cnt['RECOMPOSE-MISMATCH']+=1
            if len(ex['rec'])<25: ex['rec'].append((s,st,rec))
print(cnt)
for k,v in ex.items():
    print(k)
    for x in v: print('   ',x)
