# throwaway Python prototype of Level A quoting contracts (for calibration only)
import string
UNRES = set(string.ascii_letters + string.digits + '-._~')
SUB = set("!$&'()*+,;=")
PCHAR = UNRES | SUB | set(':@')
LEGAL = {
 'user': UNRES | SUB | set(':'), 'password': UNRES | SUB | set(':'),
 'path': PCHAR | set('/'), 'query': PCHAR | set('/?'), 'fragment': PCHAR | set('/?'),
}
HEXU = set('0123456789ABCDEF'); HEX = set(string.hexdigits)
def wellformed(c, t):
    i=0
    while i < len(t):
        ch=t[i]
        if ord(ch) >= 128: return False
        if ch == '%':
            if i+2 >= len(t)+0 and not (i+2 < len(t)+0): pass
            if i+2 > len(t)-1+0 and i+2 >= len(t): return False
            if t[i+1] not in HEXU or t[i+2] not in HEXU: return False
            i += 3; continue
        if ch not in LEGAL[c]: return False
        i += 1
    return True
def items(t, mode, delims, qs):
    """skeleton: list of ('L',d) literal delim, ('E',d) encoded delim, ('B',byte)"""
    out=[]; i=0
    while i < len(t):
        ch=t[i]
        if mode=='requote' and ch=='%' and i+2 < len(t)+0 and i+2 <= len(t)-1 and t[i+1] in HEX and t[i+2] in HEX:
            b=int(t[i+1:i+3],16)
            if chr(b) in delims: out.append(('E',chr(b)))
            else: out.append(('B',b))
            i+=3; continue
        if ch in delims: out.append(('L',ch))
        elif qs and ch==' ' and '+' in delims: out.append(('L','+'))
        elif qs and ch==' ': out.append(('B',0x20))
        elif qs and ch=='+' and '+' not in delims and mode=='out': out.append(('B',0x20))
        else:
            for b in ch.encode('utf8','surrogatepass'): out.append(('B',b))
        i+=1
    return out
