from yarl import URL
import yarl._quoting_py as qp, yarl._quoting_c as qc
def t(label, f):
    try:
        print(label, '->', repr(f()))
    except Exception as e:
        print(label, 'EXC', type(e).__name__, e)
t('C surrogate', lambda: qc._Quoter()('a\ud800'))
t('Py surrogate', lambda: qp._Quoter()('a\ud800'))
t('C %sur', lambda: qc._Quoter()('%\ud800AB'))
t('Py %sur', lambda: qp._Quoter()('%\ud800AB'))
t('join esc', lambda: str(URL('http://a/b%2Fc/d%20e/f').join(URL('g'))))
t('join frag', lambda: str(URL('http://a/b?q#frag').join(URL(''))))
t('with_suffix esc', lambda: str(URL('http://a/b%20c.txt').with_suffix('.md')))
t('[] host', lambda: URL('http://[]/'))
t('empty host port', lambda: URL('x://:80/').host_port_subcomponent)
t('empty host port str', lambda: str(URL('x://:80/')))
a,b=URL('http://a'),URL('http://a/')
t('eq', lambda:(a==b, a<b, a>b, a<=b, a>=b, hash(a)==hash(b)))
t('idna fallback', lambda: (URL('http://Ab_c.é.com').raw_host))
t('idna fallback2', lambda: str(URL(str(URL('http://Ab_c.é.com')))))
t('build authority path', lambda: str(URL.build(authority='h', path='foo', encoded=True)))
t('build nonenc rel', lambda: str(URL.build(host='h', path='foo')))
t('ipvfuture', lambda: str(URL('http://[v1.fe:80]/')))
t('ipvfuture2', lambda: str(URL(str(URL('http://[V1.Fe:80]:81/')))))
t('port0', lambda: (URL('http://h:0/').explicit_port, str(URL('http://h:0/'))))
t('build port 0', lambda: str(URL.build(scheme='http',host='h',port=0)))
t('human', lambda: URL('http://h/a%25b').human_repr())
