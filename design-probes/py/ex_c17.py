import sys, itertools, collections
sys.path.insert(0,'/repo')
from yarl import URL
DEF={"http": 80, "https": 443, "ws": 80, "wss": 443, "ftp": 21}
cnt=collections.Counter(); ex=collections.defaultdict(list)
def note(k,*x):
    cnt[k]+=1
    if len(ex[k])<6: ex[k].append(x)
schemes=['http','https','ws','wss','ftp','x','']
ports=[None,'','0','1','20','21','22','79','80','81','442','443','444','65534','65535','65536','99999','-1','a','8a']
hosts=['h','1.2.3.4','[::1]','[fe80::1%eth0]','h.','']
uis=['','u@','u:p@']
def brack(h): return h
for sc,po,ho,ui in itertools.product(schemes,ports,hosts,uis):
    s=(sc+':' if sc else '')+'//'+ui+ho+(':'+po if po is not None else '')+'/p'
    pure = po is not None and po!='' and po.isdigit()
    must_reject = po is not None and po!='' and (not pure and not any(c.isdigit() for c in po) or (pure and int(po)>65535))
    try:
        u=URL(s)
    except ValueError as e:
        if pure and int(po)<=65535: 
            if not(ho=='' and sc in DEF): note('REJECT-VALID',s,str(e))
            else: cnt['reject-nohost']+=1
        else: cnt['reject-ok']+=1
        continue
    except Exception as e: note('CRASH:'+type(e).__name__,s); continue
    if must_reject: note('ACCEPT-INVALID',s,u.explicit_port); continue
    if po=='-1' or po=='8a': note('gray-accepted',s,u.explicit_port); continue
    exp = int(po) if pure else None
    if u.explicit_port!=exp: note('EXPLICIT',s,u.explicit_port,exp)
    eport = exp if exp is not None else DEF.get(sc)
    if u.port!=eport: note('PORT',s,u.port,eport)
    isdef = (exp is None) or exp==DEF.get(sc)
    try:
        if u.is_default_port()!=isdef: note('ISDEF',s,u.is_default_port(),isdef)
    except Exception as e: note('ISDEF-EXC',s)
    st=str(u)
    shown = (':'+po) in st.split('/p')[0] if pure else False
    if pure and shown==(exp==DEF.get(sc)): note('STR-ELIDE',s,st)
    try:
        hps=u.host_port_subcomponent
        hshown = hps.endswith(':'+po) if pure else False
        if pure and hshown==(exp==DEF.get(sc)): note('HPS-ELIDE',s,hps)
    except Exception as e: note('HPS-EXC:'+type(e).__name__,s)
    for p in [None,0,80,65535]:
        try:
            w=u.with_port(p)
            if w.explicit_port!=p: note('WITH_PORT',s,p,w.explicit_port)
        except Exception as e: note('WITH_PORT-EXC:'+type(e).__name__,s,p)
    cnt['ok']+=1
for bad in [True,False,1.0,'80',-1,65536]:
    try: URL('http://h').with_port(bad); note('WITH_PORT-ACCEPTED',bad)
    except (TypeError,ValueError) as e: cnt['with_port-reject:'+type(e).__name__]+=1
# build route
for sc,p,ho in itertools.product(schemes,[None,0,1,80,443,65535,65536,-1,True],['h','::1','']):
    try: u=URL.build(scheme=sc,host=ho,port=p)
    except (ValueError,TypeError) as e: cnt['build-reject:'+type(e).__name__]+=1; 
    else:
        if p is True or (p is not None and not 0<=p<=65535): note('BUILD-ACCEPT-INVALID',sc,p,ho,u._netloc)
        elif ho and p is not None and p!=DEF.get(sc) and u.explicit_port!=p: note('BUILD-PORT',sc,p,ho,u.explicit_port)
print(cnt)
for k,v in ex.items():
    print(k); [print('   ',x) for x in v]
