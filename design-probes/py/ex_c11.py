import sys, itertools, collections, random
sys.path.insert(0,'/repo')
from yarl import URL
schemes=['http','https','ftp','x','']
users=[None,'u','u%40','ü']
pws=[None,'','p']
hosts=['h.com','é.com','1.2.3.4','[::1]','[fe80::1%Eth0]','h.com.']
ports=[None,'0','80','443','8080']
paths=['','/','/a','/a/b.txt','/a%2Fb/c%20d','/é']
queries=[None,'a=1','a=1&a=2&b']
frags=[None,'f','f%23']
RAW=['scheme','raw_user','raw_password','raw_host','explicit_port','raw_path','raw_query_string','raw_fragment','host_subcomponent']
def obs(u): return {a:getattr(u,a) for a in RAW}
cnt=collections.Counter(); ex=collections.defaultdict(list)
def note(k,*x):
    cnt[k]+=1
    if len(ex[k])<6: ex[k].append(x)
def frame(name,base,res,own):
    a=obs(base); b=obs(res)
    d=[k for k in RAW if k not in own and a[k]!=b[k]]
    if d: note('FRAME:'+name, str(base), str(res), [(k,a[k],b[k]) for k in d])
    else: cnt['ok:'+name]+=1
random.seed(3)
for _ in range(40000):
    sc=random.choice(schemes); us=random.choice(users); pw=random.choice(pws); ho=random.choice(hosts); po=random.choice(ports)
    pa=random.choice(paths); qu=random.choice(queries); fr=random.choice(frags)
    auth=ho+(':'+po if po is not None else '')
    if us is not None or pw is not None: auth=(us or '')+((':'+pw) if pw is not None else '')+'@'+auth
    s=(sc+':' if sc else '')+'//'+auth+pa+('?'+qu if qu is not None else '')+('#'+fr if fr is not None else '')
    u=URL(s)
    m=random.choice(['scheme','user','password','host','port','fragment','query','path','name','suffix','div','parent','origin','relative'])
    try:
        if m=='scheme':
            r=u.with_scheme(random.choice(['http','HTTPS','x'])); frame(m,u,r,{'scheme'})
        elif m=='user':
            a=random.choice([None,'v','v w','%41'])
            r=u.with_user(a); frame(m,u,r,{'raw_user'} | ({'raw_password'} if a is None else set()))
            if a is None and r.raw_password is not None: note('USER-NONE-PW',s)
        elif m=='password':
            a=random.choice([None,'','q','q:r']); r=u.with_password(a); frame(m,u,r,{'raw_password'})
            if (r.raw_password is None)!=(a is None): note('PW-NONE',s,a,r.raw_password)
        elif m=='host':
            a=random.choice(['g.org','::2','9.9.9.9','ü.de']); r=u.with_host(a); frame(m,u,r,{'raw_host','host_subcomponent'})
        elif m=='port':
            a=random.choice([None,0,80,443,1]); r=u.with_port(a); frame(m,u,r,{'explicit_port'})
            if r.explicit_port!=a: note('PORT-SET',s,a,r.explicit_port)
        elif m=='fragment':
            a=random.choice([None,'','g','g h#']); r=u.with_fragment(a); frame(m,u,r,{'raw_fragment'})
        elif m=='query':
            r=u.update_query({'z':'1'}); frame(m,u,r,{'raw_query_string'})
        elif m in('path','name','suffix','div','parent'):
            kq=random.random()<.5; kf=random.random()<.5
            if m=='path': r=u.with_path('/n m',keep_query=kq,keep_fragment=kf)
            elif m=='name':
                r=u.with_name('n m',keep_query=kq,keep_fragment=kf)
            elif m=='suffix':
                r=u.with_suffix('.md',keep_query=kq,keep_fragment=kf)
            elif m=='div': r=u/'n m'; kq=kf=False
            else: r=u.parent; kq=kf=False
            own={'raw_path'}
            if not kq: own.add('raw_query_string')
            if not kf: own.add('raw_fragment')
            frame(m,u,r,own)
            if m=='parent' and r is u: continue
            if not kq and r.raw_query_string!='' : note('Q-NOT-CLEARED:'+m,s,str(r))
            if not kf and r.raw_fragment!='' : note('F-NOT-CLEARED:'+m,s,str(r))
        elif m=='origin':
            r=u.origin()
            if (r.scheme,r.raw_host,r.explicit_port)!=(u.scheme,u.raw_host,u.explicit_port) or r.raw_user or r.raw_password or r.raw_path!='/' or r.raw_query_string or r.raw_fragment: note('ORIGIN',s,str(r))
        elif m=='relative':
            r=u.relative()
            if r.scheme or r.raw_authority or (r.raw_path,r.raw_query_string,r.raw_fragment)!=(u._path,u.raw_query_string,u.raw_fragment): note('REL',s,str(r))
    except ValueError as e:
        note('VE:'+m, s, str(e)[:60])
print(cnt)
for k,v in ex.items():
    print(k); [print('   ',x) for x in v]
